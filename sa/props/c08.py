"""C08 - a returned fit result and the model state describe the same point.

Structural clauses decided (not the numerical quality of the minimum):
  (a) resolved calls      every method called on `<x>.vm` (VarsManager) and on `fcn`
                          (FCN / CombineFCN) in the fit drivers exists in that class
  (b) sync before report  in every function that builds a FitResult, on every CFG path
                          the reported point is written into the model after the last
                          optimiser call, the `params` argument is read from the model
                          after the last write (or is the very object that was written)
                          and `min_nll` derives from the optimiser result
  (c) bounds consumed     every minimiser branch of fit_scipy's dispatch uses `bounds_dict`
                          and every function that accepts `bounds_dict` uses it
  (d) file round trip     FitResult.save_as stores the parameters under the key that
                          ConfigLoader.set_params unwraps; save_params writes the flat form
"""
import ast

from ..cfg import CFG, forward, witness_path
from ..effects import Effects, derived_names, strict_aliases, strict_names
from ..model import AnalysisError, bind_call, const_value, dotted, norm_text, walk_local, walk_stmt
from ..resolve import Resolver

FIT = "tf_pwa/fit.py"
PRODUCERS = [
    "fit_minuit_v1",
    "fit_minuit_v2",
    "fit_root_fitter",
    "fit_scipy",
    "fit_newton_cg",
    "except_result",
]
# not among the minimisers the property names ("BFGS, CG, L-BFGS-B, Newton-CG, trust-*, iminuit")
INFO_ONLY = {"fit_root_fitter": "ROOT fitter is not among the minimisers the property names"}
OPT_CALLS = {"minimize", "my_minimize", "migrad", "hesse", "minos", "FitFCN", "basinhopping"}
FCN_EVAL_ATTRS = {"nll_grad", "grad", "nll_grad_hessian", "grad_hessp", "nll", "get_nll_grad", "get_grad"}
VM_CLASS = "tf_pwa/variable.py::VarsManager"
FCN_CLASSES = ["tf_pwa/model/model.py::FCN", "tf_pwa/model/model.py::CombineFCN"]
A_FILES = ["tf_pwa/fit.py", "tf_pwa/fit_improve.py", "tf_pwa/applications.py"]
NAMED_BRANCHES = {"BFGS", "CG", "L-BFGS-B", "Newton-CG", "trust-krylov", "trust-ncg", "trust-exact", "iminuit",
                  "Newton-CG-p", "trust-krylov-p", "trust-ncg-p"}


def instance_attrs(cls):
    out = set()
    for c in cls.mro:
        out |= set(c.class_attrs)
        for m in c.methods.values():
            for n in walk_local(m.node):
                if isinstance(n, ast.Attribute) and isinstance(n.ctx, ast.Store) and isinstance(n.value, ast.Name) and n.value.id == "self":
                    out.add(n.attr)
    return out


# --------------------------------------------------------------------------- (e)
def clause_e(repo, chk, res):
    """seed-driven clauses"""
    chk.rule("E-coord", "a VarsManager method that has a val_in_fit parameter passes it on to every callee that has one (set_all -> set, get_all_val -> get): a defaulted flag silently switches between physical and fit coordinates when a bound is installed")
    chk.rule("E-neglect", "add_particle_constraints: in each `if \"m\"/\"g\" in float` statement the floated branch (freed / bound) and the not-floated branch (neglect on load) name the same attribute (mass / width)")
    chk.rule("E-guard", "contradiction rule: an optimiser-result attribute that one statement of a fit driver guards with hasattr(s, X) is not read unguarded elsewhere in the same function (scipy's CG / Nelder-Mead results have no hess_inv)")
    vm = repo.cls(VM_CLASS)
    n = 0
    for mname, f in sorted(vm.methods.items()):
        if "val_in_fit" not in f.all_param_names():
            continue
        for c in [x for x in walk_local(f.node) if isinstance(x, ast.Call) and isinstance(x.func, ast.Attribute) and isinstance(x.func.value, ast.Name) and x.func.value.id == "self"]:
            g = vm.lookup(c.func.attr)
            if g is None or g is f or "val_in_fit" not in g.all_param_names():
                continue
            bound, extra, star, kw = bind_call(c, g)
            b = bound.get("val_in_fit")
            ok = isinstance(b, ast.Name) and b.id == "val_in_fit"
            n += 1
            chk.instance("E-coord", "VarsManager.%s -> %s binds val_in_fit=%s: %s" % (mname, c.func.attr, norm_text(b) if b is not None else "<callee default %s>" % norm_text(g.defaults().get("val_in_fit")), ok))
            if not ok:
                chk.violation("E-coord", f.key, "forward:%s" % c.func.attr, "`%s` does not pass its own val_in_fit on to %s (callee default %s, own default %s): with a bound installed the value is transformed although the caller asked for the other coordinate" % (norm_text(c)[:70], c.func.attr, norm_text(g.defaults().get("val_in_fit")), norm_text(f.defaults().get("val_in_fit"))), file=VAR_FILE, line=c.lineno)
    if n < 3:
        raise AnalysisError("fewer than 3 val_in_fit forwarding sites in VarsManager")
    # neglect-list siblings
    f = repo.fn("tf_pwa/config_loader/config_loader.py::ConfigLoader.add_particle_constraints")
    want = {"m": "mass", "g": "width"}
    seen = 0
    for st in walk_local(f.node):
        if not isinstance(st, ast.If):
            continue
        t = st.test
        if not (isinstance(t, ast.Compare) and isinstance(t.left, ast.Constant) and t.left.value in want and isinstance(t.ops[0], ast.In) and "float" in norm_text(t.comparators[0])):
            continue
        seen += 1
        # locals that stand for <particle>.mass / <particle>.width (mass_var = p_i.mass)
        alias = {}
        for a_ in walk_local(f.node):
            if isinstance(a_, ast.Assign) and len(a_.targets) == 1 and isinstance(a_.targets[0], ast.Name) and isinstance(a_.value, ast.Attribute) and a_.value.attr in ("mass", "width") and isinstance(a_.value.value, ast.Name):
                alias.setdefault(a_.targets[0].id, set()).add(a_.value.attr)

        def attrs(stmts):
            out = {x.attr for s_ in stmts for x in ast.walk(s_) if isinstance(x, ast.Attribute) and isinstance(x.value, ast.Name) and x.attr in ("mass", "width")}
            for s_ in stmts:
                for x in ast.walk(s_):
                    if isinstance(x, ast.Name) and isinstance(x.ctx, ast.Load) and x.id in alias:
                        out |= alias[x.id]
            return out
        a_if, a_else = attrs(st.body), attrs(st.orelse)
        neglect = any("_neglect_when_set_params" in norm_text(s_) for s_ in st.orelse)
        ok = a_if == {want[t.left.value]} and a_else == {want[t.left.value]} and neglect
        chk.instance("E-neglect", "float %r: floated branch touches %s, not-floated branch neglects %s: %s" % (t.left.value, sorted(a_if), sorted(a_else), ok))
        if not ok:
            chk.violation("E-neglect", f.key, "float:%s" % t.left.value, "for `%s` in float the floated branch handles p_i.%s but the other branch puts p_i.%s on the neglect-on-load list (expected %s in both): a fitted value is dropped when parameters are loaded from a file" % (t.left.value, sorted(a_if), sorted(a_else), want[t.left.value]), file=f.mod.rel, line=st.lineno)
    if seen != 2:
        raise AnalysisError("add_particle_constraints: expected the two `\"m\"/\"g\" in float` statements, found %d" % seen)
    # contradiction rule on optimiser-result attributes
    for key in ("tf_pwa/fit.py::fit_scipy", "tf_pwa/fit.py::fit_newton_cg"):
        fn = repo.fn(key)
        from ..model import parent_map

        guarded_attrs = {}
        for x in walk_local(fn.node):
            if isinstance(x, ast.Call) and isinstance(x.func, ast.Name) and x.func.id == "hasattr" and len(x.args) == 2 and isinstance(x.args[1], ast.Constant):
                guarded_attrs.setdefault((norm_text(x.args[0]), x.args[1].value), []).append(x)
        if not guarded_attrs:
            continue
        from ..cfg import CFG, forward

        cfg = CFG(fn.node)
        for (recv, attr), guards in sorted(guarded_attrs.items()):
            probe = "hasattr(%s,%r)" % (recv, attr)
            # a flag bound once to the probe (`has_it = hasattr(s, 'hess_inv')`) stands for it
            flags = set()
            for st_ in walk_local(fn.node):
                if isinstance(st_, ast.Assign) and len(st_.targets) == 1 and isinstance(st_.targets[0], ast.Name) and norm_text(st_.value).replace('"', "'").replace(" ", "") == probe:
                    nm_ = st_.targets[0].id
                    if sum(1 for y in walk_local(fn.node) if isinstance(y, ast.Name) and y.id == nm_ and isinstance(y.ctx, ast.Store)) == 1:
                        flags.add(nm_)

            def polarity(test):
                """+1: test true implies the attribute exists; -1: test false implies it; 0: says nothing"""
                t = test
                sign = 1
                while isinstance(t, ast.UnaryOp) and isinstance(t.op, ast.Not):
                    t, sign = t.operand, -sign
                txt = norm_text(t).replace('"', "'").replace(" ", "")
                is_probe = lambda v_: norm_text(v_).replace('"', "'").replace(" ", "") == probe or (isinstance(v_, ast.Name) and v_.id in flags)
                if txt == probe or (isinstance(t, ast.Name) and t.id in flags):
                    return sign
                if isinstance(t, ast.BoolOp) and isinstance(t.op, ast.And) and sign == 1 and any(is_probe(v) for v in t.values):
                    return 1
                if isinstance(t, ast.BoolOp) and isinstance(t.op, ast.Or) and sign == -1 and any(is_probe(v) for v in t.values):
                    return -1
                return 0

            def transfer(node, state, kind, recv=recv):
                if kind in ("exc", "gen"):
                    return [state]
                a = node.ast
                if node.kind == "test" and a is not None:
                    pol = polarity(a.test)
                    if pol == 1 and kind == "t" or pol == -1 and kind == "f":
                        return [True]
                # a rebinding of the receiver forgets what is known about it
                if node.kind in ("stmt", "for") and a is not None and isinstance(a, (ast.Assign, ast.AugAssign, ast.For)):
                    tg = a.targets if isinstance(a, ast.Assign) else [a.target]
                    if any(isinstance(x, ast.Name) and x.id == recv for t_ in tg for x in ast.walk(t_)):
                        return [False]
                return [state]

            at, _ = forward(cfg, False, transfer)
            for node in cfg.nodes:
                a = node.ast
                if a is None or node.kind in ("with_exit", "handler") or isinstance(a, (ast.FunctionDef, ast.ClassDef)):
                    continue
                scan = a.test if node.kind == "test" else (a.iter if node.kind == "for" else a)
                reads = [x for x in walk_stmt(scan) if isinstance(x, ast.Attribute) and x.attr == attr and norm_text(x.value) == recv and isinstance(x.ctx, ast.Load)]
                if not reads:
                    continue
                # a read inside the guarded operand of `hasattr(..) and <read>` / inside an IfExp is guarded locally
                local_ok = node.kind == "test" and polarity(a.test) == 1 and isinstance(a.test, ast.BoolOp)
                ok = local_ok or (bool(at[node.id]) and all(at[node.id]))
                chk.instance("E-guard", "%s: read of %s.%s at line %d guarded by hasattr on every path: %s" % (key.split("::")[1], recv, attr, reads[0].lineno, ok), show=False)
                if not ok:
                    chk.violation("E-guard", key, "unguarded:%s.%s" % (recv, attr), "`%s.%s` is read on a path where hasattr(%s, %r) has not been established although the same function tests it elsewhere: for minimisers whose result has no %s (scipy CG, Nelder-Mead) the fit ends in AttributeError" % (recv, attr, recv, attr, attr), file=FIT, line=reads[0].lineno)
    chk.require_count("E-guard", 2)
    clause_std(repo, chk)


def clause_std(repo, chk):
    """post-fit standardisation of polar variables leaves every tied / bounded variable alone (shared with C16)"""
    # post-fit standardisation skips every member of a tie group (not only the non-head members)
    chk.rule("E-std", "VarsManager.standard_complex (run by fit_scipy after min_nll is taken) skips a complex variable whose r or phase component occurs anywhere in a tie group: membership is tested against the whole group, not a slice of it")
    sc = repo.fn("tf_pwa/variable.py::VarsManager.standard_complex")
    # decided by interpretation on a small manager: which variables reach std_polar
    from ..sym import SelfObj, Translator, Unmodelled

    vmc = repo.cls(VM_CLASS)
    done = []
    hooks = {vmc.methods["std_polar"].key: lambda tr_, a_, k_, n_: done.append(a_[-1]), "builtin.isinstance": lambda tr_, a_, k_, n_: isinstance(a_[0], list)}
    cv = {"F": True, "H": True, "M": True, "T": True, "P": True, "X": False, "L": [True, False]}
    so = SelfObj(vmc, {"complex_vars": dict(cv), "same_list": [["Hr", "Mr"], ["Ti", "Ui", "Vi"]], "bnd_dic": {"Pr": "bound"}})
    try:
        Translator(repo, hooks=hooks, max_depth=2).call_fn(sc, [], {}, self_obj=so)
    except Unmodelled as e:
        raise AnalysisError("standard_complex cannot be interpreted: %s" % e)
    want = ["F"]  # H: head of an r-tie, M: member of it, T: head of a phase tie, P: bounded, X: Cartesian, L: list-valued
    ok = done == want
    chk.instance("E-std", "standard_complex on a manager with a free polar variable F, the head H and a member M of an r-tie, the head T of a phase tie, a bounded P, a Cartesian X and a list-valued L: standardises %s: %s" % (done, ok))
    if not ok:
        extra = [x for x in done if x not in want]
        chk.violation("E-std", sc.key, "tie-slice", "standard_complex standardises %s, expected only the unconstrained polar variable F: %s - a tied or bounded variable that is standardised alone (shared radius flipped, only its own phase shifted) moves the model away from the reported minimum" % (done, ("the head of a tie group is not recognised as tied" if any(x in ("H", "T") for x in extra) else "constrained variables %s are touched" % extra) if extra else "F is skipped"), file="tf_pwa/variable.py", line=sc.lineno)

VAR_FILE = "tf_pwa/variable.py"


def clause_scale(repo, chk):
    """the objective wrapper handed to scipy scales value and gradient by grad_scale exactly once (fit_scipy divides
    s.fun by grad_scale once to report min_nll)"""
    import numpy as np
    import sympy as sp

    from ..sym import PyFunc, SelfObj, Translator, Unmodelled, equal
    FI = "tf_pwa/fit_improve.py"
    chk.rule("E-scale", "Cached_FG(f_g, grad_scale)(x), interpreted with f_g returning (F, (G1, G2)) and no NaN: the pair handed to the minimiser is (grad_scale F, grad_scale G) - one common factor, applied once - and Cached_FG.fun(x) is F itself; fit_scipy reports s.fun / grad_scale")
    cls = repo.cls(FI + "::Cached_FG")
    sc = sp.Symbol("grad_scale", positive=True)
    F, G1, G2 = sp.symbols("F G1 G2", real=True)

    def first(tr, d, args, kwargs, n):
        if d.split(".")[-1] == "isnan":
            a = args[0]
            if isinstance(a, np.ndarray):
                return [False] * a.size
            if isinstance(a, (list, tuple)):
                return [False] * len(a)
            return False
        if d.split(".")[-1] == "all" and isinstance(args[0], (bool, list)):
            return bool(args[0]) if isinstance(args[0], bool) else all(args[0])
        return NotImplemented

    so = SelfObj(cls, {"f_g": PyFunc(lambda x: (F, np.array([G1, G2], dtype=object))), "grad_scale": sc, "cached_fun": 0, "cached_grad": 0, "ncall": 0})
    tr = Translator(repo, hooks={"numeric_call_first": first, "allow_attr_store": True}, max_depth=3)
    try:
        out = tr.call_fn(cls.methods["__call__"], [np.array([sp.Symbol("x1"), sp.Symbol("x2")], dtype=object)], {}, self_obj=so)
        so2 = SelfObj(cls, dict(so.attrs, cached_fun=0, cached_grad=0))
        fval = tr.call_fn(cls.methods["fun"], [np.array([sp.Symbol("x1"), sp.Symbol("x2")], dtype=object)], {}, self_obj=so2)
    except Unmodelled as e:
        raise AnalysisError("Cached_FG cannot be interpreted: %s" % e)
    ok = isinstance(out, tuple) and len(out) == 2 and equal(sp.sympify(out[0]), sc * F)[0] is True and all(equal(sp.sympify(a), b)[0] is True for a, b in zip(np.asarray(out[1], dtype=object).reshape(-1), (sc * G1, sc * G2)))
    ok_f = equal(sp.sympify(fval), F)[0] is True
    chk.oblige("E-scale", "Cached_FG.__call__ -> (%s, %s) ; Cached_FG.fun -> %s" % (out[0] if isinstance(out, tuple) else out, list(np.asarray(out[1], dtype=object).reshape(-1)) if isinstance(out, tuple) else "?", fval), ok and ok_f)
    if not ok:
        chk.violation("E-scale", cls.methods["__call__"].key, "objective", "the minimiser is given %s for f_g = (F, (G1, G2)): value and gradient must both be scaled by grad_scale exactly once, otherwise fit_scipy's min_nll = s.fun / grad_scale is not the NLL of the returned parameters" % (out,), file=FI, line=cls.methods["__call__"].lineno)
    if not ok_f:
        chk.violation("E-scale", cls.methods["fun"].key, "fun", "Cached_FG.fun returns %s instead of the unscaled objective F" % fval, file=FI, line=cls.methods["fun"].lineno)
    # fit_scipy undoes the factor once
    fs = repo.fn("tf_pwa/fit.py::fit_scipy")
    # <result>.fun / grad_scale, possibly through a temporary (scaled = s.fun; min_nll = scaled / grad_scale)
    fun_locals = {n.targets[0].id for n in walk_local(fs.node) if isinstance(n, ast.Assign) and len(n.targets) == 1 and isinstance(n.targets[0], ast.Name) and norm_text(n.value).endswith(".fun")}
    undo = [n for n in walk_local(fs.node) if isinstance(n, ast.BinOp) and isinstance(n.op, ast.Div) and norm_text(n.right) == "grad_scale" and (norm_text(n.left).endswith(".fun") or (isinstance(n.left, ast.Name) and n.left.id in fun_locals))]
    chk.oblige("E-scale", "fit_scipy reports <result>.fun / grad_scale (%d site)" % len(undo), len(undo) >= 1)
    if not undo:
        chk.violation("E-scale", fs.key, "undo", "fit_scipy no longer divides the minimiser's objective value by grad_scale: min_nll is grad_scale times the NLL", file="tf_pwa/fit.py", line=fs.lineno)


def clause_coord(repo, chk):
    """the point a minimiser returns is written back in the coordinate of the objective it minimised"""
    FITF = "tf_pwa/fit.py"
    chk.rule("C-coord", "in every minimiser branch of fit_scipy (and in fit_newton_cg) the objective handed to the minimiser and the write-back of its result use the same coordinate: an objective wrapped by vm.trans_fcn_grad / trans_grad_hessp / trans_f_grad_hess works in the fit coordinate and is written back with set_trans_var(x) / set_all(x, True); the raw fcn.nll_grad (bounds handed to scipy) works in the model coordinate and is written back with set_all(x) - never the other way round, whatever ranges an earlier fit left registered")
    WRAP = ("trans_fcn_grad", "trans_grad_hessp", "trans_f_grad_hess")
    MINI = ("minimize", "my_minimize")
    n_br = 0

    def analyse(label, stmts, fkey, line, outer_defs=None):
        nonlocal n_br
        outer_defs = outer_defs or {}
        nodes = [x for st in stmts for x in ast.walk(st)]
        defs = {}
        for x in nodes:
            if isinstance(x, ast.Assign) and len(x.targets) == 1 and isinstance(x.targets[0], ast.Name):
                defs.setdefault(x.targets[0].id, []).append(x.value)
            if isinstance(x, ast.FunctionDef):
                defs.setdefault(x.name, []).append(x)

        def coord(e, depth=0):
            t = norm_text(e) if not isinstance(e, ast.FunctionDef) else " ".join(norm_text(b) for b in e.body)
            if any("." + w + "(" in t for w in WRAP):
                return "fit"
            if depth < 4:
                for nm in {y.id for y in ast.walk(e) if isinstance(y, ast.Name)}:
                    for rhs in defs.get(nm, []):
                        if rhs is not e and coord(rhs, depth + 1) == "fit":
                            return "fit"
                    # a module-level helper of the fit driver that builds the objective (wraps it there)
                    g_ = repo.mod(FIT).funcs.get(FIT + "::" + nm) if hasattr(repo.mod(FIT), "funcs") else None
                    if g_ is None:
                        g_ = next((h_ for h_ in repo.func_by_name.get(nm, []) if h_.mod.rel == FIT and h_.cls is None), None)
                    if g_ is not None and any("." + w + "(" in norm_text(b) for w in WRAP for b in g_.node.body):
                        return "fit"
            return "raw"

        objectives = []
        for x in nodes:
            if isinstance(x, ast.Call) and (norm_text(x.func).split(".")[-1] in MINI) and (x.args or any(k.arg == "fun" for k in x.keywords)):
                obj = x.args[0] if x.args else next(k.value for k in x.keywords if k.arg == "fun")
                objectives.append((coord(obj), x))
        if not objectives:
            return
        writes = []
        for x in nodes:
            if isinstance(x, ast.Call) and isinstance(x.func, ast.Attribute) and x.func.attr in ("set_trans_var", "set_all") and x.args:
                if x.func.attr == "set_trans_var":
                    c = "fit"
                else:
                    flag = x.args[1] if len(x.args) > 1 else next((k.value for k in x.keywords if k.arg == "val_in_fit"), None)
                    c = "fit" if (flag is not None and const_value(flag) is True) else "raw"
                writes.append((c, x))
        # the start point handed to the minimiser is in the coordinate of its objective
        def start_coord(e, depth=0):
            t = norm_text(e)
            if "get_all_val(True" in t.replace(" ", "") or "val_in_fit=True" in t.replace(" ", ""):
                return "fit"
            if ".numpy()" in t or "get_all_val(" in t:
                return "raw"
            if depth < 4:
                for nm in sorted({y.id for y in ast.walk(e) if isinstance(y, ast.Name)}):
                    cands = [r for r in defs.get(nm, []) if r is not e and not isinstance(r, ast.FunctionDef)] or outer_defs.get(nm, [])
                    got = {start_coord(r, depth + 1) for r in cands if r is not e and not isinstance(r, ast.FunctionDef)} - {None}
                    if len(got) == 1:
                        return got.pop()
            return None

        starts = []
        for c_obj, x in objectives:
            if isinstance(x.args[0] if x.args else None, ast.Lambda):
                continue
            st_e = x.args[1] if len(x.args) > 1 else next((k.value for k in x.keywords if k.arg == "x0"), None)
            if st_e is not None:
                starts.append((c_obj, start_coord(st_e), x, st_e))
        for c_obj, c_st, x, st_e in starts:
            if c_st is not None and c_st != c_obj:
                chk.violation("C-coord", fkey, "start:%s" % label, "%s: the minimiser works on %s but starts from `%s`, a point in the %s coordinate: with a range registered for a free parameter the fit silently starts somewhere else than the model stands (the reported minimum can lie above the NLL the fit was called at)" % (label, "the bound-transformed fit coordinate" if c_obj == "fit" else "the raw model coordinate", norm_text(st_e)[:40], "model" if c_st == "raw" else "fit"), file=FITF, line=x.lineno)
                break
        n_br += 1
        # an ad-hoc lambda objective (the derivative-free variant `lambda x: float(fcn(x))`) is reported, not judged
        lam = [o for o in objectives if isinstance(o[1].args[0] if o[1].args else None, ast.Lambda)]
        for c, x in lam:
            chk.info("C-coord: %s: lambda objective `%s` (line %d) classified %s - not judged" % (label, norm_text(x.args[0])[:40], x.lineno, c))
        objectives = [o for o in objectives if o not in lam] or objectives
        kinds = {c for c, _ in objectives}
        ok = len(kinds) == 1 and all(c in kinds for c, _ in writes)
        chk.instance("C-coord", "%s: objective in the %s coordinate (%d minimiser calls), %d write-backs in %s" % (label, "/".join(sorted(kinds)), len(objectives), len(writes), "/".join(sorted({c for c, _ in writes})) or "-"), nontrivial=True)
        if len(kinds) == 1:
            want = next(iter(kinds))
            for c, x in writes:
                if c != want:
                    chk.violation("C-coord", fkey, "write-back:%s" % label, "%s: the minimiser works on %s but its result is written back with `%s`, which takes a point in the %s coordinate: whenever a range is registered for a free parameter (left behind by an earlier Newton-CG / trust-* fit or an aborted BFGS fit) the stored value is the transform of the returned one, so the model no longer sits at the point whose NLL is reported" % (label, "the raw model coordinate (fcn.nll_grad with scipy bounds)" if want == "raw" else "the bound-transformed fit coordinate", norm_text(x)[:50], "fit" if c == "fit" else "model"), file=FITF, line=x.lineno)

    fs = repo.fn(FITF + "::fit_scipy")
    chain = [st for st in fs.node.body if isinstance(st, ast.If) and "method" in norm_text(st.test)]
    # bindings made before the method dispatch (the start vector collected from the trainable variables)
    outer = {}
    for st in fs.node.body:
        if st in chain:
            break
        for x in ast.walk(st):
            if isinstance(x, ast.Assign) and len(x.targets) == 1 and isinstance(x.targets[0], ast.Name):
                outer.setdefault(x.targets[0].id, []).append(x.value)
            if isinstance(x, ast.Call) and isinstance(x.func, ast.Attribute) and x.func.attr in ("append", "extend") and isinstance(x.func.value, ast.Name) and x.args:
                outer.setdefault(x.func.value.id, []).append(x.args[0])
    for top in chain:
        cur = top
        while isinstance(cur, ast.If):
            analyse("fit_scipy[%s]" % norm_text(cur.test)[:40], cur.body, fs.key, cur.lineno, outer)
            cur = cur.orelse[0] if len(cur.orelse) == 1 and isinstance(cur.orelse[0], ast.If) else None
    fn2 = repo.fn_opt(FITF + "::fit_newton_cg") if hasattr(repo, "fn_opt") else None
    if fn2 is not None:
        analyse("fit_newton_cg", fn2.node.body, fn2.key, fn2.lineno)
    if n_br < 2:
        raise AnalysisError("C-coord: only %d minimiser branches recognised in tf_pwa/fit.py" % n_br)


def clause_dic(repo, chk):
    """the parameter dictionary of a fit result holds model (physical) values, also while ranges are registered"""
    import sympy as sp

    from ..sym import SelfObj, Translator, Unmodelled
    VARF = "tf_pwa/variable.py"
    vmc = repo.cls(VARF + "::VarsManager")
    bcls = repo.cls(VARF + "::Bound")
    chk.rule("E-dic", "VarsManager.get_all_dic interpreted on a manager with a trainable variable that carries a range (the state in which fit_newton_cg / the early exits build the FitResult), a trainable free one and a fixed one: every listed value is the model value of that variable - never the fit coordinate - and the listed names are the trainable ones (trainable_only) or all of them")
    fn = vmc.methods.get("get_all_dic")
    if fn is None:
        raise AnalysisError("anchor vanished: VarsManager.get_all_dic")
    a, b, c = sp.symbols("theta_a theta_b theta_c", real=True)
    fit = sp.Function("fit_coordinate")
    hooks = {"allow_attr_store": True}
    for nm_ in ("get_y2x",):
        if nm_ in bcls.methods:
            hooks[bcls.methods[nm_].key] = lambda tr_, args, kwargs, node: fit(sp.sympify(args[-1]))
    for flag in (True, False):
        vm = SelfObj(vmc, {"variables": {"a": a, "b": b, "c": c}, "trainable_vars": ["a", "c"], "bnd_dic": {"a": SelfObj(bcls, {})}, "pre_trans": {}, "mask_vars": {}, "complex_vars": {}, "same_list": []})
        tr = Translator(repo, hooks=hooks, max_depth=3)
        try:
            out = tr.call_fn(fn, [], {"trainable_only": flag}, self_obj=vm)
        except Unmodelled as e:
            raise AnalysisError("VarsManager.get_all_dic cannot be interpreted: %s" % e)
        want = {"a": a, "c": c} if flag else {"a": a, "b": b, "c": c}
        ok = isinstance(out, dict) and set(out) == set(want) and all(sp.simplify(sp.sympify(out[k]) - want[k]) == 0 for k in want)
        chk.oblige("E-dic", "get_all_dic(trainable_only=%s) == model values of %s (a carries a range)" % (flag, sorted(want)), ok)
        if not ok:
            chk.violation("E-dic", fn.key, "dic:%s" % flag, "get_all_dic(trainable_only=%s) returns %s on a manager whose variable a carries a range; the model values are %s: a FitResult built while the ranges are registered (Newton-CG / trust-*, early exits) lists a coordinate the model does not hold" % (flag, out, want), file=VARF, line=fn.lineno)


def run(repo, chk, tier):
    clause_scale(repo, chk)
    clause_dic(repo, chk)
    clause_coord(repo, chk)
    res = Resolver(repo)
    eff = Effects(repo, res)
    clause_a(repo, chk, res)
    clause_b(repo, chk, res, eff)
    clause_c(repo, chk, res)
    clause_d(repo, chk)
    clause_e(repo, chk, res)
    # the minimiser's objective (nll_grad) is the function whose value is reported: constraint terms enter once
    from .c07 import check_constraint_once

    check_constraint_once(repo, chk, ("value", "grad"), rule="G-once")
    # the bounds a fit driver asks for are the bounds in force (shared with C16)
    from .c16 import clause_d as bound_formulas, clause_g, clause_setbound

    clause_setbound(repo, chk)
    clause_g(repo, chk)
    bound_formulas(repo, chk)  # D-bound: the transform keeps a bounded parameter inside its limits (a limit of 0 included)
    # the write-back of a minimiser and the loading of a result file go through set_all: every value is written (shared with C16)
    from .c16 import clause_setall

    clause_setall(repo, chk)
    clause_stale_pair(repo, chk)


# --------------------------------------------------------------------------- (a)
def clause_a(repo, chk, res):
    chk.rule("A-resolve", "every method called on <x>.vm / fcn in the fit drivers is defined in VarsManager / in both FCN and CombineFCN")
    vm = repo.cls(VM_CLASS)
    fcns = [repo.cls(k) for k in FCN_CLASSES]
    vm_attrs = instance_attrs(vm)
    n = 0
    for rel in A_FILES:
        m = repo.mod(rel)
        for f in m.funcs.values():
            for node in walk_local(f.node):
                if not (isinstance(node, ast.Call) and isinstance(node.func, ast.Attribute)):
                    continue
                recv = node.func.value
                mname = node.func.attr
                if isinstance(recv, ast.Attribute) and recv.attr == "vm" or (isinstance(recv, ast.Name) and recv.id == "vm" and "vm" not in f.all_param_names() or (isinstance(recv, ast.Name) and recv.id == "vm")):
                    n += 1
                    ok = vm.lookup(mname) is not None or mname in vm_attrs
                    chk.instance("A-resolve", "%s::%s %s -> VarsManager.%s %s" % (rel, f.qual, norm_text(node.func), mname, "ok" if ok else "MISSING"), show=False)
                    if not ok:
                        chk.violation(
                            "A-resolve", f.key, "vm.%s" % mname,
                            "`%s(...)` - class VarsManager defines no method or attribute `%s`; every execution of this statement raises AttributeError"
                            % (norm_text(node.func), mname),
                            file=rel, line=node.lineno,
                        )
                elif isinstance(recv, ast.Name) and recv.id == "fcn" and "fcn" in _params_in_scope(f):
                    n += 1
                    missing = [c.name for c in fcns if c.lookup(mname) is None and mname not in instance_attrs(c)]
                    chk.instance("A-resolve", "%s::%s fcn.%s %s" % (rel, f.qual, mname, "ok" if not missing else "MISSING in " + ",".join(missing)), show=False)
                    if missing:
                        chk.violation(
                            "A-resolve", f.key, "fcn.%s" % mname,
                            "`fcn.%s(...)` is not defined by %s" % (mname, ", ".join(missing)),
                            file=rel, line=node.lineno,
                        )
    chk.out("  [A-resolve] %d method calls on vm/fcn receivers resolved in %s" % (n, ", ".join(A_FILES)))
    chk.require_count("A-resolve", 30)


def _params_in_scope(f):
    out = set()
    p = f
    while p is not None:
        out |= set(p.all_param_names())
        p = p.parent
    return out


# --------------------------------------------------------------------------- (b)
class SyncAnalysis:
    def __init__(self, fn, eff, res):
        self.fn = fn
        self.eff = eff
        self.res = res
        self.cfg = CFG(fn.node)
        self.derived = derived_names(fn.node)
        self.aliases = strict_aliases(fn.node)
        # locals that evaluate the likelihood (and thereby move the model): wrappers of fcn.nll_grad ...
        self.evaluators = set()
        changed = True
        direct = {}
        for n in walk_local(fn.node):
            if isinstance(n, ast.Assign) and len(n.targets) == 1 and isinstance(n.targets[0], ast.Name):
                direct.setdefault(n.targets[0].id, []).append(n.value)
        nested = {g.name: g for g in fn.mod.funcs.values() if g.parent is fn}
        while changed:
            changed = False
            for name, vals in direct.items():
                if name in self.evaluators:
                    continue
                for v in vals:
                    if self._mentions_evaluator(v):
                        self.evaluators.add(name)
                        changed = True
            for name, g in nested.items():
                if name in self.evaluators:
                    continue
                if any(self._mentions_evaluator(x) for x in g.node.body):
                    self.evaluators.add(name)
                    changed = True
        self.opt_result_vars = set()
        self.events = {}
        for node in self.cfg.nodes:
            self.events[node.id] = self._classify(node)

    def _mentions_evaluator(self, expr):
        """is `expr` a callable that evaluates the likelihood (fcn.nll_grad, a wrapper
        built from one: Cached_FG(f_g), vm.trans_fcn_grad(fcn.nll_grad), lambda x: hess(x)[2], a nested def)?"""
        if isinstance(expr, (ast.stmt,)):
            return any(self._direct_eval(x) for x in ast.walk(expr))
        if isinstance(expr, ast.Attribute):
            return self._direct_eval(expr)
        if isinstance(expr, ast.Lambda):
            return any(self._direct_eval(x) for x in ast.walk(expr.body))
        if isinstance(expr, ast.Call):
            fname = expr.func.attr if isinstance(expr.func, ast.Attribute) else (expr.func.id if isinstance(expr.func, ast.Name) else None)
            if fname in OPT_CALLS or fname == "FitResult":
                return False
            return any(
                self._direct_eval(x) for a in list(expr.args) + [k.value for k in expr.keywords] for x in ast.walk(a)
            )
        return False

    def _direct_eval(self, x):
        if isinstance(x, ast.Attribute) and x.attr in FCN_EVAL_ATTRS and isinstance(x.value, ast.Name) and x.value.id == "fcn":
            return True
        if isinstance(x, ast.Name) and x.id in self.evaluators:
            return True
        if isinstance(x, ast.Call) and isinstance(x.func, ast.Name) and x.func.id == "fcn":
            return True
        return False

    def _scan(self, node):
        a = node.ast
        if a is None:
            return None
        if node.kind == "test":
            return a.test
        if node.kind == "for":
            return a.iter
        if node.kind in ("with_enter",):
            return ast.Tuple(elts=[i.context_expr for i in a.items], ctx=ast.Load())
        if node.kind in ("with_exit", "handler"):
            return None
        if isinstance(a, (ast.FunctionDef, ast.AsyncFunctionDef, ast.ClassDef)):
            return None
        return a

    def _classify(self, node):
        scan = self._scan(node)
        ev = []
        if scan is None:
            return ev
        assigned = None
        if isinstance(scan, ast.Assign) and len(scan.targets) == 1 and isinstance(scan.targets[0], ast.Name):
            assigned = scan.targets[0].id
        for n in walk_stmt(scan):
            if not isinstance(n, ast.Call):
                continue
            fname = n.func.attr if isinstance(n.func, ast.Attribute) else (n.func.id if isinstance(n.func, ast.Name) else None)
            if fname in OPT_CALLS:
                rv = set()
                if assigned:
                    rv.add(assigned)
                if isinstance(n.func, ast.Attribute) and isinstance(n.func.value, ast.Name):
                    rv.add(n.func.value.id)
                self.opt_result_vars |= rv
                ev.append(("opt", n, rv))
                continue
            if fname == "FitResult":
                ev.append(("report", n))
                continue
            # a helper of the repository that runs the optimiser on an object it is given
            cands_h, how_h = self.res.resolve_call(self.fn, n)
            if how_h in ("local", "module") and cands_h and all(self._runs_optimiser(g) for g in cands_h):
                rv = {a.id for a in n.args if isinstance(a, ast.Name)}
                if assigned:
                    rv.add(assigned)
                self.opt_result_vars |= rv
                ev.append(("opt", n, rv))
                continue
            if isinstance(n.func, ast.Name) and n.func.id in self.evaluators:
                ev.append(("probe", n))
                continue
            cells, cands, how = self.eff.call_writes(self.fn, n)
            if "params" in cells:
                ev.append(("write", n))
                continue
            if assigned and "params" in self.eff.snapshot_cells(self.fn, n):
                ev.append(("read", n, assigned))
        # flow-sensitive "derived from the last optimiser result" facts
        if isinstance(scan, ast.Assign):
            vals = {x.id for x in ast.walk(scan.value) if isinstance(x, ast.Name)}
            tg = set()
            for t in scan.targets:
                for x in ast.walk(t):
                    if isinstance(x, ast.Name) and isinstance(x.ctx, ast.Store):
                        tg.add(x.id)
            if tg:
                ev.append(("assign", tg, vals))
        elif isinstance(scan, ast.AugAssign) and isinstance(scan.target, ast.Name):
            vals = {x.id for x in ast.walk(scan.value) if isinstance(x, ast.Name)} | {scan.target.id}
            ev.append(("assign", {scan.target.id}, vals))
        elif node.kind == "for":
            vals = {x.id for x in ast.walk(node.ast.iter) if isinstance(x, ast.Name)}
            tg = {x.id for x in ast.walk(node.ast.target) if isinstance(x, ast.Name)}
            ev.append(("assign", tg, vals))
        return ev

    @staticmethod
    def _runs_optimiser(g, _seen=None):
        return any(isinstance(c, ast.Call) and ((isinstance(c.func, ast.Attribute) and c.func.attr in OPT_CALLS) or (isinstance(c.func, ast.Name) and c.func.id in OPT_CALLS)) for c in walk_local(g.node))

    @staticmethod
    def from_result(expr, tainted):
        return bool({x.id for x in ast.walk(expr) if isinstance(x, ast.Name)} & tainted)

    def transfer(self, node, state, kind):
        if kind in ("exc", "gen"):
            return [state]
        phase, fresh, synced, tainted = state
        for e in self.events[node.id]:
            if e[0] == "opt":
                phase, fresh, synced = "unsynced", frozenset(), frozenset()
                tainted = frozenset(e[2])
            elif e[0] == "write":
                call = e[1]
                args = list(call.args) + [k.value for k in call.keywords]
                if any(self.from_result(a, tainted) for a in args):
                    phase = "synced"
                    fresh = frozenset()
                    s = set()
                    for a in args:
                        s |= strict_names(self.aliases, a)
                        s.add("expr:" + norm_text(a))
                    synced = frozenset(s)
                else:
                    fresh, synced = frozenset(), frozenset()
            elif e[0] == "probe":
                fresh, synced = frozenset(), frozenset()
            elif e[0] == "read":
                fresh = fresh | {e[2]}
            elif e[0] == "assign":
                tg, vals = e[1], e[2]
                if any(isinstance(x, tuple) and x[0] == "opt" for x in self.events[node.id]):
                    continue
                if vals & tainted:
                    tainted = tainted | tg
                else:
                    tainted = tainted - tg
                    fresh = fresh - tg if not any(x[0] == "read" for x in self.events[node.id]) else fresh
        return [(phase, fresh, synced, tainted)]


def clause_b(repo, chk, res, eff):
    chk.rule(
        "B-sync",
        "must-pass-through on the statement CFG: optimiser call -> write of the reported point into the model -> "
        "(re)read of params after the last write -> FitResult(params, fcn, min_nll)",
    )
    m = repo.mod(FIT)
    producers = []
    for f in m.funcs.values():
        if f.parent is None and any(
            isinstance(n, ast.Call) and isinstance(n.func, ast.Name) and n.func.id == "FitResult" for n in walk_local(f.node)
        ):
            producers.append(f)
    names = sorted(f.qual for f in producers)
    for p in PRODUCERS:
        if p not in names:
            raise AnalysisError("anchor vanished: FitResult producer %s::%s" % (FIT, p))
    for f in producers:
        an = SyncAnalysis(f, eff, res)
        init = ("none", frozenset(), frozenset(), frozenset())
        at, wit = forward(an.cfg, init, an.transfer)
        n_reports = 0
        info_only = INFO_ONLY.get(f.qual)
        for node in an.cfg.nodes:
            for e in an.events[node.id]:
                if e[0] != "report":
                    continue
                n_reports += 1
                call = e[1]
                cls_init = repo.fn("tf_pwa/fit.py::FitResult.__init__")
                bound, extra, star, kwstar = bind_call(call, cls_init, is_method_call=True)
                p_arg = bound.get("params")
                nll_arg = bound.get("min_nll")
                states = at[node.id]
                verdicts = []
                for st in sorted(states, key=str):
                    phase, fresh, synced, tainted = st
                    # the report statement itself may be `ret = FitResult(...)`
                    ok_params = False
                    if p_arg is not None:
                        pn = strict_names(an.aliases, p_arg)
                        if pn & fresh:
                            ok_params = True
                        # a reader call written in the argument position reads the model at the report itself
                        if isinstance(p_arg, ast.Call) and "params" in eff.snapshot_cells(f, p_arg):
                            ok_params = True
                        if pn & synced or ("expr:" + norm_text(p_arg)) in synced:
                            ok_params = True
                    path = witness_path(an.cfg, wit, node.id, st)
                    if phase == "unsynced":
                        verdicts.append(("unsynced", path))
                    elif not ok_params:
                        verdicts.append(("stale-params", path))
                    if phase != "none" and nll_arg is not None and not an.from_result(nll_arg, tainted):
                        verdicts.append(("nll-not-from-result", path))
                chk.instance(
                    "B-sync",
                    "%s::%s FitResult(%s, .., %s) states=%d evaluators=%s -> %s"
                    % (FIT, f.qual, norm_text(p_arg) if p_arg is not None else "?", norm_text(nll_arg) if nll_arg is not None else "?",
                       len(states), ",".join(sorted(an.evaluators)) or "-", "ok" if not verdicts else ";".join(sorted({v[0] for v in verdicts}))),
                )
                seen = set()
                for kind, path in verdicts:
                    if kind in seen:
                        continue
                    seen.add(kind)
                    msg = {
                        "unsynced": "a path from the optimiser to FitResult(...) never writes the reported point into the model: after the fit the live "
                        "parameters are those of the optimiser's last function evaluation, not the reported ones",
                        "stale-params": "the `params` argument of FitResult is neither read from the model after the last write of the parameters nor the object that was written",
                        "nll-not-from-result": "`min_nll` is not derived from the optimiser's result",
                    }[kind] + "; path: " + " -> ".join(path[-10:])
                    if info_only:
                        chk.info("%s::%s %s (%s): %s" % (FIT, f.qual, kind, info_only, msg[:160]))
                    else:
                        chk.violation("B-sync", f.key, kind, msg, file=FIT, line=call.lineno, path=path)
        if n_reports == 0:
            raise AnalysisError("no FitResult(...) call found in %s" % f.key)
    chk.require_count("B-sync", 6)


# --------------------------------------------------------------------------- (c)
def clause_c(repo, chk, res):
    _METHOD_CONSTS.clear()
    _METHOD_CONSTS.update({k: v for k, v in repo.mod(FIT).toplevel_assign.items() if isinstance(v, (ast.List, ast.Tuple, ast.Set))})
    chk.rule("C-bounds", "every minimiser branch of fit_scipy's method dispatch uses bounds_dict (or a local derived from it); every function with a bounds_dict parameter uses it")
    f = repo.fn("tf_pwa/fit.py::fit_scipy")
    if "bounds_dict" not in f.all_param_names():
        raise AnalysisError("fit_scipy has no bounds_dict parameter any more")
    derived = derived_names(f.node)
    carriers = {"bounds_dict"} | {k for k, v in derived.items() if "bounds_dict" in v}
    # locals filled inside loops from bounds_dict (bnds.append(bounds_dict[name]))
    # find the dispatch chain:  if method in [...]: ... elif method in [...]: ...
    chain = None
    for st in f.node.body:
        if isinstance(st, ast.If) and _method_test(st.test) is not None:
            chain = st
    if chain is None:
        raise AnalysisError("fit_scipy: method dispatch chain not found")
    nb = 0
    cur = chain
    while True:
        labels = _method_test(cur.test)
        body = cur.body
        used = {x.id for s in body for x in ast.walk(s) if isinstance(x, ast.Name)} & carriers
        ends_raise = isinstance(body[-1], ast.Raise)
        nb += 1
        named = sorted(set(labels or []) & NAMED_BRANCHES)
        chk.instance("C-bounds", "fit_scipy branch %s uses %s" % (labels, ",".join(sorted(used)) or "NOTHING"))
        if not used and not ends_raise:
            msg = "dispatch branch for method in %s never reads bounds_dict: configured bounds are silently ignored by these minimisers" % (labels,)
            if named:
                chk.violation("C-bounds", f.key, "branch:" + "/".join(named), msg, file=FIT, line=cur.lineno)
            else:
                chk.info("fit_scipy branch %s ignores bounds_dict (not among the minimisers the property names)" % (labels,))
        if len(cur.orelse) == 1 and isinstance(cur.orelse[0], ast.If) and _method_test(cur.orelse[0].test) is not None:
            cur = cur.orelse[0]
        else:
            break
    if nb < 6:
        raise AnalysisError("fit_scipy dispatch chain has only %d branches" % nb)
    for key in ("tf_pwa/fit.py::fit_minuit", "tf_pwa/fit.py::fit_minuit_v1", "tf_pwa/fit.py::fit_minuit_v2"):
        g = repo.fn(key)
        if "bounds_dict" not in g.all_param_names():
            raise AnalysisError("%s lost its bounds_dict parameter" % key)
        uses = [n for n in walk_local(g.node) if isinstance(n, ast.Name) and n.id == "bounds_dict" and isinstance(n.ctx, ast.Load)]
        # a use that can matter: subscripted / passed on / iterated
        chk.instance("C-bounds", "%s reads bounds_dict %d times" % (key, len(uses)))
        if not uses:
            chk.violation("C-bounds", key, "param:bounds_dict", "parameter bounds_dict is accepted but never used", file=FIT, line=g.lineno)
        # forwarding by name in delegating calls
        for n in walk_local(g.node):
            if isinstance(n, ast.Call) and isinstance(n.func, ast.Name) and n.func.id in ("fit_minuit_v1", "fit_minuit_v2"):
                callee = repo.fn("tf_pwa/fit.py::" + n.func.id)
                bound, _, _, _ = bind_call(n, callee)
                b = bound.get("bounds_dict")
                if b is None or not (isinstance(b, ast.Name) and b.id == "bounds_dict"):
                    chk.violation("C-bounds", key, "forward:%s" % n.func.id, "bounds_dict is not forwarded to %s" % n.func.id, file=FIT, line=n.lineno)
    # the iminuit branch must forward under the right name
    for n in walk_local(f.node):
        if isinstance(n, ast.Call) and isinstance(n.func, ast.Name) and n.func.id == "fit_minuit":
            callee = repo.fn("tf_pwa/fit.py::fit_minuit")
            bound, _, _, kw = bind_call(n, callee)
            b = bound.get("bounds_dict")
            ok = b is not None and "bounds_dict" in ({x.id for x in ast.walk(b) if isinstance(x, ast.Name)})
            chk.instance("C-bounds", "fit_scipy -> fit_minuit binds bounds_dict=%s" % (norm_text(b) if b is not None else "<default {}>"))
            if not ok:
                chk.violation("C-bounds", f.key, "forward:fit_minuit", "the iminuit branch calls fit_minuit without forwarding bounds_dict (default {} is used)", file=FIT, line=n.lineno)
    chk.require_count("C-bounds", 9)


_METHOD_CONSTS = {}


def _method_test(test):
    """`method in [..]` / `method == ".."` -> list of labels, else None (a module-level named list is looked through)"""
    if isinstance(test, ast.Compare) and isinstance(test.left, ast.Name) and test.left.id == "method" and len(test.ops) == 1:
        c = test.comparators[0]
        if isinstance(c, ast.Name) and c.id in _METHOD_CONSTS:
            c = _METHOD_CONSTS[c.id]
        if isinstance(test.ops[0], ast.In) and isinstance(c, (ast.List, ast.Tuple, ast.Set)):
            return [const_value(e) for e in c.elts]
        if isinstance(test.ops[0], ast.Eq) and isinstance(c, ast.Constant):
            return [c.value]
    return None


# --------------------------------------------------------------------------- (d)
def clause_d(repo, chk):
    chk.rule("D-keys", "FitResult.save_as writes self.params under the key ConfigLoader.set_params unwraps; save_params writes the flat form set_params accepts")
    save_as = repo.fn("tf_pwa/fit.py::FitResult.save_as")
    wkeys = set()
    for n in walk_local(save_as.node):
        if isinstance(n, ast.Dict):
            for k, v in zip(n.keys, n.values):
                if k is not None and isinstance(v, ast.Attribute) and v.attr == "params" and isinstance(v.value, ast.Name) and v.value.id == "self":
                    wkeys.add(const_value(k))
        if isinstance(n, ast.Assign) and isinstance(n.targets[0], ast.Subscript):
            v = n.value
            if isinstance(v, ast.Attribute) and v.attr == "params":
                wkeys.add(const_value(n.targets[0].slice))
    if not wkeys:
        raise AnalysisError("FitResult.save_as: cannot find the key self.params is stored under")
    set_params = repo.fn("tf_pwa/config_loader/config_loader.py::ConfigLoader.set_params")
    rkeys = set()
    for n in walk_local(set_params.node):
        # params = params["value"]
        if isinstance(n, ast.Assign) and isinstance(n.value, ast.Subscript) and isinstance(n.value.value, ast.Name):
            if isinstance(n.targets[0], ast.Name) and n.targets[0].id == n.value.value.id:
                k = const_value(n.value.slice)
                if isinstance(k, str):
                    rkeys.add(k)
        if isinstance(n, ast.Call) and isinstance(n.func, ast.Attribute) and n.func.attr == "get" and n.args:
            k = const_value(n.args[0])
            if isinstance(k, str):
                rkeys.add(k)
    chk.instance("D-keys", "save_as writes params under %s; set_params unwraps %s" % (sorted(wkeys), sorted(rkeys)))
    if not (wkeys & rkeys):
        chk.violation(
            "D-keys", save_as.key, "key:" + ",".join(sorted(map(str, wkeys))),
            "FitResult.save_as stores the parameters under %s but ConfigLoader.set_params unwraps %s: a saved result does not load back" % (sorted(wkeys), sorted(rkeys)),
            file=FIT, line=save_as.lineno,
        )
    # the guard and the unwrap must use the same key:  if "value" in params: params = params["value"]
    guards = set()
    for n in walk_local(set_params.node):
        if isinstance(n, ast.Compare) and len(n.ops) == 1 and isinstance(n.ops[0], ast.In) and isinstance(n.left, ast.Constant) and isinstance(n.left.value, str) and isinstance(n.comparators[0], ast.Name) and n.comparators[0].id == "params":
            guards.add(n.left.value)
    chk.instance("D-keys", "set_params guard key(s) %s / unwrap key(s) %s" % (sorted(guards), sorted(rkeys)))
    for gk in sorted(guards):
        if gk not in rkeys:
            chk.violation("D-keys", set_params.key, "guard:%s" % gk, "guard tests key %r but the unwrap reads %s" % (gk, sorted(rkeys)), file=set_params.mod.rel, line=set_params.lineno)
    # save_params: flat dict of get_params()
    sp = repo.fn("tf_pwa/config_loader/config_loader.py::ConfigLoader.save_params")
    import sympy as _sp

    from ..sym import SelfObj as _SelfObj, Translator as _Tr, Unmodelled as _Unm

    dumped = []

    def _dump(tr, d, args, kwargs, n):
        if d.split(".")[-1] == "dump":
            dumped.append(args[0])
            return None
        return NotImplemented

    A_, B_ = _sp.symbols("A B")
    tr_ = _Tr(repo, hooks={"numeric_call": _dump, sp.cls.methods["get_params"].key if "get_params" in sp.cls.methods else "x": (lambda tr, a, k, n: {"R_mass": A_, "R_width": B_})}, max_depth=2)
    try:
        tr_.call_fn(sp, [_sp.Symbol("file_name")], self_obj=_SelfObj(sp.cls, {}))
    except _Unm as e:
        raise AnalysisError("save_params not interpretable: %s" % e)
    flat = len(dumped) == 1 and isinstance(dumped[0], dict) and dumped[0] == {"R_mass": A_, "R_width": B_}
    dumps = dumped
    chk.instance("D-keys", "save_params, interpreted on two parameters, dumps the flat {name: value} mapping: %s" % flat)
    if not (flat and dumps):
        chk.violation("D-keys", sp.key, "flat", "save_params no longer writes the flat name->value mapping that set_params accepts (it dumps %s)" % (dumped[:1],), file=sp.mod.rel, line=sp.lineno)
    chk.require_count("D-keys", 3)


# --------------------------------------------------------------------------- (stale pair)
def clause_stale_pair(repo, chk):
    """the emergency result pairs the model's parameters with the NLL the objective cached for its last evaluation:
    nothing may move the parameters between that evaluation and the read"""
    import ast

    from ..model import parent_map

    WRITES = {"set_trans_var", "set_all", "set_params", "set", "rp2xy_all", "xy2rp_all", "std_polar_all", "set_bound"}
    chk.rule("R-stale", "every result built from the objective's cached value (fcn.cached_nll - except_result and any other reader in tf_pwa/fit.py) describes the point the model is left at: on the way to the read, after the last evaluation of the objective in the same block / handler, no statement moves the parameters (set_trans_var / set_all / set_params / set ...); a parameter write must be followed by a fresh evaluation before the cached value is reported")
    mod = repo.mod(FIT)
    def evaluates(node):
        return any(isinstance(x, ast.Call) and ((isinstance(x.func, ast.Attribute) and (x.func.attr in FCN_EVAL_ATTRS or x.func.attr in OPT_CALLS)) or (isinstance(x.func, ast.Name) and x.func.id in OPT_CALLS)) for x in ast.walk(node))

    # pure readers: they report the cached value and never evaluate the objective themselves
    readers = {f.node.name for f in mod.funcs.values() if any(isinstance(n, ast.Attribute) and n.attr == "cached_nll" and isinstance(n.ctx, ast.Load) for n in ast.walk(f.node)) and not evaluates(f.node)}
    # ... directly or through a helper that does (closure over calls by name)
    changed = True
    while changed:
        changed = False
        for f in mod.funcs.values():
            if f.node.name not in readers and not evaluates(f.node) and any(isinstance(x, ast.Call) and isinstance(x.func, ast.Name) and x.func.id in readers for x in ast.walk(f.node)):
                readers.add(f.node.name)
                changed = True
    if "except_result" not in readers:
        raise AnalysisError("anchor vanished: except_result no longer reads fcn.cached_nll")
    n_sites = 0
    for f in mod.funcs.values():
        pm = parent_map(f.node)
        for c in ast.walk(f.node):
            is_reader_call = isinstance(c, ast.Call) and isinstance(c.func, ast.Name) and c.func.id in readers
            is_direct = isinstance(c, ast.Attribute) and c.attr == "cached_nll" and isinstance(c.ctx, ast.Load) and f.node.name not in ("except_result",)
            if not (is_reader_call or is_direct):
                continue
            n_sites += 1
            # the statement that holds the read, and the statements before it in its block
            st = c
            while st in pm and not isinstance(st, ast.stmt):
                st = pm[st]
            par = pm.get(st)
            block = None
            for field in ("body", "orelse", "finalbody"):
                b = getattr(par, field, None)
                if isinstance(b, list) and st in b:
                    block = b
            if block is None:
                continue
            hit = None
            for prev in reversed(block[: block.index(st)]):
                calls = [x for x in ast.walk(prev) if isinstance(x, ast.Call)]
                if any((isinstance(x.func, ast.Attribute) and x.func.attr in FCN_EVAL_ATTRS) or (isinstance(x.func, ast.Name) and x.func.id in ("fcn", "f_g", "f")) for x in calls):
                    break   # a fresh evaluation: the cached value belongs to the current point
                w = [x for x in calls if isinstance(x.func, ast.Attribute) and x.func.attr in WRITES]
                if w:
                    hit = w[0]
                    break
            chk.instance("R-stale", "%s line %d: `%s` - parameters moved since the last evaluation in this block: %s" % (f.qual, c.lineno, norm_text(c)[:50], bool(hit)), nontrivial=True)
            if hit is not None:
                chk.violation("R-stale", f.key, "write-before-cached:%s" % hit.func.attr, "`%s` moves the parameters and `%s` then reports the objective's cached value of the previous point: the result lists the new parameters with the NLL of another point (the reported minimum is not the NLL at the reported values)" % (norm_text(hit)[:60], norm_text(c)[:50]), file=FIT, line=hit.lineno)
    if n_sites < 1:
        raise AnalysisError("R-stale: no reader of fcn.cached_nll found in tf_pwa/fit.py")
    chk.require_count("R-stale", 1)
