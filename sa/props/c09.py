"""C09 - first-order error propagation.

(a) operator rules of NumberError (E6): for every arithmetic method and every
    branch of its isinstance dispatch, the returned error e satisfies
        e^2 == sum_i (d val / d x_i)^2 e_i^2
    as an identity of canonical forms (partial derivatives taken symbolically on
    the translated `val`), and e is non-negative on the whole domain.
(b) quadratic-form wiring: fit-fraction errors are sqrt(g.V.g) with the same
    gradient on both sides and V the matrix passed in; cal_hesse_error takes
    sqrt(|diag|) of a matrix derived from the inverse of the Hessian returned by
    nll_grad_hessian.
"""
import ast

import numpy as np
import sympy as sp

from ..model import AnalysisError, norm_text, walk_local
from ..sym import SelfObj, Translator, Unmodelled, equal

LEVEL = "proof"
ERRNUM = "tf_pwa/err_num.py::NumberError"

# method -> (branches, domain note); branch 'N' = other is a NumberError, 'S' = other is a plain scalar, '-' = unary
METHODS = {
    "__add__": "NS", "__sub__": "NS", "__neg__": "-", "__mul__": "NS", "__truediv__": "NS",
    "__pow__": "NS", "__rpow__": "S", "log": "-", "exp": "-",
}
POSITIVE_BASE = {"__pow__", "__rpow__", "log"}


def clause_point(repo, chk):
    """the finite-difference Hessian is expanded around the requested point (round-3 seed)"""
    import ast

    from ..model import norm_text
    from ..mustpass import must_pass
    APP = "tf_pwa/applications.py"
    chk.rule("H-point", "num_hess_inv_3point(fcn, params): the expansion point x0 = fcn.vm.get_all_val(..) is read, on every path, after the call fcn(params) that writes the requested point into the model (CFG must-pass)")
    fn = repo.fn_opt(APP + "::num_hess_inv_3point")
    if fn is None:
        raise AnalysisError("anchor vanished: %s::num_hess_inv_3point" % APP)
    pf, pp = fn.params[0], fn.params[1]

    def is_event(node, sc):
        return any(isinstance(x, ast.Call) and isinstance(x.func, ast.Name) and x.func.id == pf and any(isinstance(a_, ast.Name) and a_.id == pp for a_ in list(x.args) + [k_.value for k_ in x.keywords]) for x in ast.walk(sc)) or \
            any(isinstance(x, ast.Call) and isinstance(x.func, ast.Attribute) and isinstance(x.func.value, ast.Name) and x.func.value.id == pf and x.func.attr in ("__call__", "nll_grad", "grad", "nll_grad_hessian", "set_params") and any(isinstance(a_, ast.Name) and a_.id == pp for a_ in list(x.args) + [k_.value for k_ in x.keywords]) for x in ast.walk(sc)) or \
            any(isinstance(x, ast.Call) and isinstance(x.func, ast.Attribute) and x.func.attr in ("set_params", "set_all") and any(isinstance(a, ast.Name) and a.id == pp for a in x.args) for x in ast.walk(sc))

    def is_sink(node, sc):
        return any(isinstance(x, ast.Call) and isinstance(x.func, ast.Attribute) and x.func.attr in ("get_all_val", "get_all_dic") for x in ast.walk(sc))

    cfg, n_sinks, bad = must_pass(fn.node, is_event, is_sink)
    if n_sinks < 1:
        raise AnalysisError("num_hess_inv_3point: no read of the expansion point (get_all_val) found")
    chk.oblige("H-point", "num_hess_inv_3point: %d read(s) of the expansion point, all after `%s(%s)`" % (n_sinks, pf, pp), not bad)
    for node, path in bad[:2]:
        chk.violation("H-point", fn.key, "stale-point", "the expansion point is read (line %s) before `%s(%s)` writes the requested point into the model: Hessian and bound transform are evaluated around the model's previous values, the errors belong to another point" % (node.lineno, pf, pp), file=APP, line=node.lineno)


def run(repo, chk, tier):
    clause_point(repo, chk)
    from .c07 import check_sumvar, check_sumvar_call, check_transform_wrappers

    check_transform_wrappers(repo, chk, only="cov")

    check_sumvar(repo, chk)
    check_sumvar_call(repo, chk)
    # the gradient of a fit fraction that get_frac contracts with the covariance matrix (shared with C03): quotient rule
    # for the single fractions and for the interference terms (which have FF_i + FF_j subtracted)
    from ..tapescope import check_tape_scope
    from .c03 import frac_grad_by_interpretation

    chk.rule("A-frac", "FitFractions.get_frac_grad interpreted for three resonances with symbolic integrals and gradients: FF_i = I_i/I, FF_ij = I_ij/I - FF_i - FF_j and every gradient is the exact derivative (quotient rule) of its fraction")
    chk.rule("A-index", "get_frac_grad visits every index pair")
    if not frac_grad_by_interpretation(repo, chk):
        raise AnalysisError("FitFractions.get_frac_grad is not interpretable: the gradients behind the fit-fraction errors are not decided")
    check_tape_scope(repo, chk, ["tf_pwa/fitfractions.py"], min_functions=2)
    # the error-propagation context (error_trans / params_trans) and the masks and temporary parameters used while a
    # derived quantity is evaluated are context managers: their change must be undone on every exit of the block
    from ..ctxrestore import check_ctx_restore

    check_ctx_restore(repo, chk, ["tf_pwa/variable.py", "tf_pwa/params_trans.py", "tf_pwa/config.py", "tf_pwa/amp/amp.py", "tf_pwa/amp/core.py", "tf_pwa/config_loader/config_loader.py", "tf_pwa/config_loader/multi_config.py"], min_functions=6)
    chk.rule("E6-err", "NumberError operator rules: err^2 == sum (d val/d x_i)^2 err_i^2 (exact identity) and err >= 0 on the whole domain")
    chk.rule("E3-quad", "derived-quantity errors are sqrt(g . V . g) with one gradient and the matrix passed in; hesse errors are sqrt(|diag(inv H)|)")
    chk.assume("domain: values real (bases of powers / arguments of log positive), input errors positive; scalars real and non-zero")
    chk.trusted_base[:] = ["AST->sympy translator sa/sym.py", "sympy diff / ring normaliser", "sympy assumption engine for sign decisions (cross-checked numerically)"]
    clause_coord_and_config(repo, chk)
    clause_a(repo, chk, tier)
    clause_exact_power(repo, chk)
    clause_b(repo, chk, tier)
    clause_c(repo, chk)
    # V_y = y' V_x y' for bounded parameters (shared with C07): rows and columns scaled
    from .c07 import chain_formulas

    chk.rule("B-chain", "E6 on a two-parameter component model: trans_error_matrix returns V_y[i,j] = dy_i V_ij dy_j")
    chain_formulas(repo, chk, only="cov")
    # the Hessian that get_params_error inverts is the Hessian of the minimised function: constraint Hessian once
    from .c07 import check_constraint_once

    check_constraint_once(repo, chk, ("hess",), rule="H-once")


def _mk_number(cls, args, kwargs):
    """NumberError(value, error) as an object of the abstract run (so that results can be operands again)"""
    a = list(args)
    if a and isinstance(a[0], SelfObj) and a[0].cls is cls and not a[0].attrs:
        a = a[1:]
    v = a[0] if a else kwargs.get("value")
    e = a[1] if len(a) > 1 else kwargs.get("error", sp.Integer(1))
    return SelfObj(cls, {"_value": v, "_error": e})


def _real_log(tr, a):
    """numpy's real logarithm: nan for a negative argument, -inf at zero (a complex logarithm would hide 0 * log(-2))"""
    a = sp.sympify(a)
    if a.is_number and a.is_real:
        if a < 0:
            return sp.nan
        if a == 0:
            return -sp.oo
    return sp.log(a)


EXACT_POWERS = [
    # (value, error, exact exponent): integer powers are defined for every real base
    (sp.Integer(-2), sp.Rational(1, 10), 2), (sp.Integer(-2), sp.Rational(1, 10), 3), (sp.Integer(0), sp.Rational(1, 10), 2),
    (sp.Integer(0), sp.Rational(1, 10), 1), (sp.Rational(-1, 2), sp.Rational(1, 5), -2), (sp.Integer(3), sp.Rational(1, 10), 2),
]


def clause_exact_power(repo, chk):
    """x ** n with an exact exponent, interpreted at concrete points of the whole real line"""
    cls = repo.cls(ERRNUM)
    fn = cls.methods.get("__pow__")
    if fn is None:
        raise AnalysisError("anchor vanished: NumberError.__pow__")
    chk.rule("E6-domain", "NumberError.__pow__ with an exact integer exponent, interpreted at concrete rational points (negative, zero and positive bases; numpy's real logarithm): the value is x**n and the error is |n x**(n-1)| s, finite everywhere")
    for x, e, n in EXACT_POWERS:
        me = SelfObj(cls, {"_value": x, "_error": e})
        hooks = {"builtin.isinstance": lambda tr, args, kwargs, node: isinstance(args[0], SelfObj), cls.key: lambda tr, args, kwargs, node: _mk_number(cls, args, kwargs), "unary:log": _real_log}
        tr = Translator(repo, hooks=hooks)
        try:
            res = tr.call_fn(fn, [sp.Integer(n)], self_obj=me)
        except Unmodelled as ex:
            raise AnalysisError("NumberError.__pow__ cannot be interpreted at (%s +- %s) ** %s: %s" % (x, e, n, ex))
        if not (isinstance(res, SelfObj) and "_value" in res.attrs and "_error" in res.attrs):
            raise AnalysisError("NumberError.__pow__ does not return NumberError(val, err)")
        val, err = sp.simplify(sp.sympify(res.attrs["_value"])), sp.simplify(sp.sympify(res.attrs["_error"]))
        want_v, want_e = x ** n, sp.Abs(n * x ** (n - 1)) * e
        ok = (not val.has(sp.nan, sp.zoo, sp.oo)) and (not err.has(sp.nan, sp.zoo, sp.oo)) and sp.simplify(val - want_v) == 0 and sp.simplify(err - want_e) == 0
        chk.oblige("E6-domain", "(%s +- %s) ** %s == %s +- %s" % (x, e, n, want_v, want_e), ok)
        if not ok:
            chk.violation("E6-domain", fn.key, "exact-power:%s^%s" % (x, n), "(%s +- %s) ** %s evaluates to %s +- %s, first-order propagation gives %s +- %s" % (x, e, n, val, err, want_v, want_e), file="tf_pwa/err_num.py", line=fn.lineno)
    # binary operators at points where a VALUE is exactly zero (a vanishing numerator, a zero factor): the propagated
    # error is defined there and must come out finite and equal to the first-order formula
    X, Y = sp.symbols("X Y", real=True)
    n_bin = 0
    for op_name, expr in (("__truediv__", X / Y), ("__mul__", X * Y), ("__add__", X + Y), ("__sub__", X - Y)):
        op = cls.methods.get(op_name)
        if op is None:
            raise AnalysisError("anchor vanished: NumberError.%s" % op_name)
        points = [(sp.Integer(0), sp.Rational(1, 2), sp.Integer(3), sp.Rational(1, 4)), (sp.Integer(0), sp.Rational(1, 2), sp.Integer(-3), sp.Rational(1, 4)), (sp.Integer(2), sp.Rational(1, 3), sp.Integer(-5), sp.Rational(1, 7))]
        if op_name != "__truediv__":
            points.append((sp.Integer(2), sp.Rational(1, 3), sp.Integer(0), sp.Rational(1, 7)))
            points.append((sp.Integer(0), sp.Rational(1, 3), sp.Integer(0), sp.Rational(1, 7)))
        for x, ex, y, ey in points:
            me = SelfObj(cls, {"_value": x, "_error": ex})
            other = SelfObj(cls, {"_value": y, "_error": ey})
            hooks = {"builtin.isinstance": lambda tr, args, kwargs, node: isinstance(args[0], SelfObj), cls.key: lambda tr, args, kwargs, node: _mk_number(cls, args, kwargs), "unary:log": _real_log}
            tr = Translator(repo, hooks=hooks)
            try:
                res = tr.call_fn(op, [other], self_obj=me)
            except Unmodelled as ex_:
                raise AnalysisError("NumberError.%s cannot be interpreted at (%s +- %s), (%s +- %s): %s" % (op_name, x, ex, y, ey, ex_))
            if not (isinstance(res, SelfObj) and "_value" in res.attrs and "_error" in res.attrs):
                raise AnalysisError("NumberError.%s does not return NumberError(val, err)" % op_name)
            try:
                val, err = sp.simplify(sp.sympify(res.attrs["_value"])), sp.simplify(sp.sympify(res.attrs["_error"]))
            except (TypeError, ValueError):
                val = err = sp.nan
            at = {X: x, Y: y}
            want_v = expr.subs(at)
            want_e = sp.sqrt((sp.diff(expr, X).subs(at) * ex) ** 2 + (sp.diff(expr, Y).subs(at) * ey) ** 2)
            ok = (not val.has(sp.nan, sp.zoo, sp.oo)) and (not err.has(sp.nan, sp.zoo, sp.oo)) and sp.simplify(val - want_v) == 0 and sp.simplify(err - want_e) == 0
            n_bin += 1
            chk.oblige("E6-domain", "(%s +- %s) %s (%s +- %s) == %s +- %s" % (x, ex, op_name, y, ey, want_v, want_e), ok)
            if not ok:
                chk.violation("E6-domain", op.key, "zero-value:%s:%s,%s" % (op_name, x, y), "(%s +- %s) %s (%s +- %s) evaluates to %s +- %s, first-order propagation gives %s +- %s: a value of exactly zero (an interference fraction, a vanishing numerator) must not turn the error into nan / inf" % (x, ex, op_name, y, ey, val, err, want_v, want_e), file="tf_pwa/err_num.py", line=op.lineno)
    chk.require_count("E6-domain", len(EXACT_POWERS) + n_bin)


def clause_coord_and_config(repo, chk):
    """(H-coord) the point handed to the bound-transform wrappers is read in the fit coordinate; (C-keep) re-starting
    an integration keeps the covariance matrix the caller configured"""
    import ast

    from ..model import const_value, norm_text, walk_local
    APP = "tf_pwa/applications.py"
    fn = repo.fn(APP + "::num_hess_inv_3point")
    chk.rule("H-coord", "num_hess_inv_3point differentiates vm.trans_fcn_grad(fcn.nll_grad) and maps the result with vm.trans_error_matrix: the expansion point it hands to both is read with get_all_val(True) (the fit coordinate they expect) - with a range still registered the model value is another point")
    uses_wrappers = any(isinstance(c, ast.Call) and isinstance(c.func, ast.Attribute) and c.func.attr in ("trans_fcn_grad", "trans_error_matrix", "trans_grad_hessp", "trans_f_grad_hess") for c in walk_local(fn.node))
    reads = [c for c in walk_local(fn.node) if isinstance(c, ast.Call) and isinstance(c.func, ast.Attribute) and c.func.attr == "get_all_val"]
    if not uses_wrappers or not reads:
        raise AnalysisError("num_hess_inv_3point no longer reads its expansion point with get_all_val / wraps the objective with the bound transforms")
    for c in reads:
        flag = c.args[0] if c.args else next((k.value for k in c.keywords if k.arg == "val_in_fit"), None)
        ok = flag is not None and const_value(flag) is True
        chk.oblige("H-coord", "num_hess_inv_3point reads `%s`: fit coordinate" % norm_text(c), ok)
        if not ok:
            chk.violation("H-coord", fn.key, "model-coordinate", "the expansion point is read with `%s` (model values) and handed to vm.trans_fcn_grad(...) / vm.trans_error_matrix(...), which take the fit coordinate: with a range registered (left by a Newton-CG / trust-* fit, or set by the user) the Hessian is taken at another point and mapped with the wrong slopes" % norm_text(c), file=APP, line=c.lineno)
    # C-keep
    FFm = "tf_pwa/fitfractions.py"
    cls = repo.cls(FFm + "::FitFractions")
    init = cls.methods.get("init_res_table")
    if init is None:
        raise AnalysisError("anchor vanished: FitFractions.init_res_table")
    chk.rule("C-keep", "FitFractions.init_res_table (run at the start of every integral()) interpreted on an object whose error_matrix was configured: the accumulators are reset, the configured covariance matrix is still the same object afterwards")
    V = np.array([[sp.Symbol("V11"), sp.Symbol("V12")], [sp.Symbol("V12"), sp.Symbol("V22")]], dtype=object)
    so = SelfObj(cls, {"res": ["a", "b"], "n_var": sp.Integer(2), "error_matrix": V, "cached_int": {"stale": sp.Integer(1)}, "cached_grad": {}, "cached_int_total": sp.Symbol("old_total"), "cached_grad_total": sp.Symbol("old_grad")})
    try:
        Translator(repo, hooks={"allow_attr_store": True, "concrete_zeros": True, "stack_as_array": True}, max_depth=2).call_fn(init, [], self_obj=so)
    except Unmodelled as e:
        raise AnalysisError("FitFractions.init_res_table cannot be interpreted: %s" % e)
    kept = so.attrs.get("error_matrix") is V
    reset = sp.sympify(so.attrs.get("cached_int_total")) == 0
    chk.oblige("C-keep", "init_res_table: totals reset (%s), configured error_matrix kept (%s)" % (reset, kept), kept and reset)
    if not kept:
        chk.violation("C-keep", init.key, "error_matrix", "init_res_table replaces self.error_matrix (now %s): a covariance matrix configured before integral() - or before a second integral() on the object fit_fractions returned - is silently replaced, so every fit-fraction uncertainty comes out as sqrt(g . 0 . g) = 0" % (str(so.attrs.get("error_matrix"))[:60],), file=FFm, line=init.lineno)


def clause_a(repo, chk, tier):
    cls = repo.cls(ERRNUM)
    ea, eb = sp.symbols("ea eb", positive=True)
    n_obl = 0
    for mname, branches in METHODS.items():
        fn = cls.methods.get(mname)
        if fn is None:
            raise AnalysisError("anchor vanished: NumberError.%s" % mname)
        for br in branches:
            pos = mname in POSITIVE_BASE
            a = sp.Symbol("a", positive=True) if pos else sp.Symbol("a", real=True, nonzero=True)
            b = sp.Symbol("b", real=True, nonzero=True)
            c = sp.Symbol("c", positive=True) if mname == "__rpow__" else sp.Symbol("c", real=True, nonzero=True)
            me = SelfObj(cls, {"_value": a, "_error": ea})
            other_n = SelfObj(cls, {"_value": b, "_error": eb})

            def isinst(tr, args, kwargs, n, _o=other_n):
                return args[0] is _o or isinstance(args[0], SelfObj)

            hooks = {"builtin.isinstance": isinst, cls.key: lambda tr, args, kwargs, n: _mk_number(cls, args, kwargs)}
            tr = Translator(repo, hooks=hooks)
            args = [] if br == "-" else [other_n if br == "N" else c]
            try:
                res = tr.call_fn(fn, args, self_obj=me)
            except Unmodelled as e:
                raise AnalysisError("NumberError.%s[%s] is not a single-path kernel: %s" % (mname, br, e))
            if not (isinstance(res, SelfObj) and res.cls is cls and "_value" in res.attrs and "_error" in res.attrs):
                raise AnalysisError("NumberError.%s does not return NumberError(val, err)" % mname)
            val, err = sp.sympify(res.attrs["_value"]), sp.sympify(res.attrs["_error"])
            inputs = [(a, ea)] + ([(b, eb)] if br == "N" else [])
            want2 = sum(sp.diff(val, x) ** 2 * e ** 2 for x, e in inputs)
            tag = "%s[%s]" % (mname, {"N": "NumberError", "S": "scalar", "-": "unary"}[br])
            ok, detail = equal(sp.expand(err ** 2), sp.expand(want2), symbols_domain={"a": (sp.Rational(1, 2), 3), "b": (sp.Rational(-3), sp.Rational(-1, 2)), "c": (sp.Rational(1, 2), 3)})
            if ok is None:
                raise AnalysisError("E6 normaliser too weak for NumberError.%s: %s" % (tag, detail))
            chk.oblige("E6-err", "%s: err^2 == sum (dval/dx)^2 e^2   val=%s err=%s" % (tag, val, err), ok)
            n_obl += 1
            if not ok:
                chk.violation("E6-err", fn.key, "propagation:%s" % br, "first-order propagation rule violated in %s: val=%s, err=%s, expected err^2=%s; %s" % (tag, val, err, sp.simplify(want2), detail), file="tf_pwa/err_num.py", line=fn.lineno)
            # sign
            nonneg = err.is_nonnegative
            witness = None
            if nonneg is not True:
                # classify numerically on the translated expression: look for a negative value on the domain
                import itertools
                import random

                rnd = random.Random(7)
                syms = sorted(err.free_symbols, key=lambda s: s.name)
                for _ in range(200):
                    pt = {}
                    for s_ in syms:
                        mag = sp.Rational(rnd.randint(1, 400), 100)
                        if s_.is_positive:
                            pt[s_] = mag
                        else:
                            pt[s_] = mag * rnd.choice([1, -1])
                    v = sp.N(err.subs(pt), 30)
                    if v.is_real and v < 0:
                        witness = (pt, v)
                        break
                if witness is None:
                    def sqrt_like(x):
                        if x.is_Pow and x.exp == sp.Rational(1, 2):
                            return True
                        if x.is_Mul:
                            return all(sqrt_like(t) or t.is_nonnegative for t in x.args)
                        return bool(x.is_nonnegative)

                    if not sqrt_like(err):
                        raise AnalysisError("cannot decide the sign of err=%s in NumberError.%s" % (err, tag))
            chk.oblige("E6-err", "%s: err >= 0" % tag, witness is None)
            n_obl += 1
            if witness is not None:
                chk.violation("E6-err", fn.key, "sign:%s" % br, "%s returns a negative 'error' %s = %s at %s" % (tag, err, sp.N(witness[1], 6), {str(k): str(v) for k, v in witness[0].items()}), file="tf_pwa/err_num.py", line=fn.lineno)
    if n_obl < 28:
        raise AnalysisError("only %d NumberError obligations generated" % n_obl)


def _is_quadform(expr, grad_names=None):
    """sqrt(dot(dot(M, g), g)) / sqrt(dot(g, dot(M, g))) -> (M text, g text) or None"""
    if not (isinstance(expr, ast.Call) and isinstance(expr.func, ast.Attribute) and expr.func.attr == "sqrt" and expr.args):
        return None
    e = expr.args[0]
    if not (isinstance(e, ast.Call) and isinstance(e.func, ast.Attribute) and e.func.attr == "dot" and len(e.args) == 2):
        return None
    x, y = e.args
    for inner, outer in ((x, y), (y, x)):
        if isinstance(inner, ast.Call) and isinstance(inner.func, ast.Attribute) and inner.func.attr == "dot" and len(inner.args) == 2:
            p, q = inner.args
            for M, g in ((p, q), (q, p)):
                if norm_text(g) == norm_text(outer):
                    return norm_text(M), norm_text(g)
            return ("MISMATCH", "%s vs %s" % (norm_text(inner), norm_text(outer)))
    return None


def clause_b(repo, chk, tier):
    sites = [
        ("tf_pwa/applications.py::fit_fractions", {"inv_he"}),
        ("tf_pwa/fitfractions.py::FitFractions.get_frac", {"error_matrix"}),
        ("tf_pwa/fitfractions.py::FitFractions.get_frac_diag_sum", {"error_matrix"}),
    ]
    for key, mats in sites:
        f = repo.fn(key)
        found = 0
        from .c07 import expand as _expand, single_defs as _single_defs

        _defs = {k: v for k, v in _single_defs(f.node).items() if k not in mats}  # the covariance argument keeps its name
        for n in walk_local(f.node):
            if isinstance(n, ast.Call) and isinstance(n.func, ast.Attribute) and n.func.attr == "sqrt":
                q = _is_quadform(_expand(n, _defs))  # named intermediates (V.g) are looked through
                if q is None:
                    continue
                found += 1
                ok = q[0] != "MISMATCH" and q[0] in mats
                chk.instance("E3-quad", "%s: sqrt(dot(dot(%s, g), g)) with g=%s" % (key, q[0], q[1]))
                if not ok:
                    chk.violation("E3-quad", key, "quadform", "error is not sqrt(g.V.g) with one gradient and the covariance argument: %s" % (q,), file=f.mod.rel, line=n.lineno)
        if not found:
            chk.violation("E3-quad", key, "quadform-missing", "no sqrt(g.V.g) quadratic form found any more", file=f.mod.rel, line=f.lineno)
    # cal_hesse_error: hesse_error = sqrt(fabs(diag(inv(h))))  with h from fcn.nll_grad_hessian
    f = repo.fn("tf_pwa/applications.py::cal_hesse_error")
    from ..effects import derived_names

    der = derived_names(f.node)
    h_ok = inv_ok = err_ok = False
    for n in walk_local(f.node):
        if isinstance(n, ast.Assign) and isinstance(n.value, ast.Call) and isinstance(n.value.func, ast.Attribute) and n.value.func.attr == "nll_grad_hessian":
            t = n.targets[0]
            if isinstance(t, ast.Tuple) and len(t.elts) == 3 and isinstance(t.elts[2], ast.Name):
                hname = t.elts[2].id
                h_ok = True
    for n in walk_local(f.node):
        if isinstance(n, ast.Assign) and isinstance(n.value, ast.Call) and isinstance(n.value.func, ast.Attribute) and n.value.func.attr in ("inv", "pinv"):
            arg = n.value.args[0]
            if h_ok and isinstance(arg, ast.Name) and (arg.id == hname or hname in der.get(arg.id, ())):
                inv_ok = True
    from .c07 import expand as _expand2, single_defs as _single_defs2

    rets = [r for r in walk_local(f.node) if isinstance(r, ast.Return) and r.value is not None]
    if not rets:
        raise AnalysisError("cal_hesse_error has no return")
    rv = rets[-1].value
    first = rv.elts[0] if isinstance(rv, ast.Tuple) and rv.elts else rv
    # the returned error expression, with single-assignment temporaries looked through (but not the inverse itself)
    d2 = {k: v for k, v in _single_defs2(f.node).items() if k != "inv_he"}
    ex = _expand2(first, d2)
    names = {x.id for x in ast.walk(ex) if isinstance(x, ast.Name)}
    closure = set(names)
    for nm in names:
        closure |= der.get(nm, set())
    has_sqrt = any(isinstance(x, ast.Attribute) and x.attr == "sqrt" for x in ast.walk(ex))
    has_abs = any(isinstance(x, ast.Attribute) and x.attr in ("fabs", "abs") for x in ast.walk(ex))
    err_ok = has_sqrt and has_abs and "inv_he" in closure
    chk.instance("E3-quad", "cal_hesse_error: h from nll_grad_hessian=%s, inv(h)=%s, sqrt(|diag inv_he|)=%s" % (h_ok, inv_ok, err_ok))
    if not (h_ok and inv_ok and err_ok):
        chk.violation("E3-quad", f.key, "hesse-wiring", "parameter errors are no longer sqrt(|diag(inv(Hessian))|) of the Hessian returned by nll_grad_hessian", file=f.mod.rel, line=f.lineno)
    chk.require_count("E3-quad", 4)


def clause_c(repo, chk):
    """cal_err: the gradient list and the error list zipped in sqrt(sum((g*e)^2)) have one entry per argument"""
    chk.rule("C-align", "cal_err pairs each partial derivative with the error of the same argument: values and errors are collected once per argument in every branch (constants get error 0), gradients once per value")
    fn = repo.fn("tf_pwa/err_num.py::cal_err")
    # cal_err interpreted as a whole on three arguments (uncertain, constant, uncertain - and the constant first), with a
    # user gradient and with the built-in central difference on a linear function: err^2 == sum (g_i e_i)^2 with e = 0
    # for the constant.  Robust to loop shape (if/else, early continue), temporaries and comprehension forms.
    from ..sym import PyFunc, SelfObj, Translator, Unmodelled

    ne = repo.cls(ERRNUM)
    a, b, c0, ea, eb = sp.symbols("a b c0 ea eb", positive=True)
    k1, k2, k3 = sp.symbols("k1 k2 k3", real=True)
    bad = []
    n_cases = 0
    for order in ("ucu", "cuu"):
        vals = {"u1": (a, ea), "u2": (b, eb)}
        args, want_terms = [], []
        us = iter([(a, ea), (b, eb)])
        ks = [k1, k2, k3]
        for pos, ch in enumerate(order):
            if ch == "u":
                v, e = next(us)
                args.append(SelfObj(ne, {"_value": v, "_error": e}))
                want_terms.append((ks[pos] * e) ** 2)
            else:
                args.append(c0)
        for with_grad in (True, False):
            hooks = {
                "builtin.isinstance": lambda tr, ar, kw, n: isinstance(ar[0], SelfObj) and ar[0].cls is ne,
                ne.key: lambda tr, ar, kw, n: ("NumberError", ar[0] if ar else kw.get("value"), ar[1] if len(ar) > 1 else kw.get("error")),
            }
            tr = Translator(repo, hooks=hooks, max_depth=2)
            fun = PyFunc(lambda *xs, **kw: sum(k * x for k, x in zip(ks, xs)))
            kwargs = {"grad": PyFunc(lambda *xs, **kw: list(ks))} if with_grad else {}
            try:
                out = tr.call_fn(fn, [fun] + args, kwargs)
            except Unmodelled as e:
                raise AnalysisError("cal_err not interpretable (%s, grad %s): %s" % (order, with_grad, e))
            n_cases += 1
            if not (isinstance(out, tuple) and out and out[0] == "NumberError"):
                bad.append("%s: does not return NumberError(value, error)" % order)
                continue
            err = sp.sympify(out[2])
            want = sp.sqrt(sum(want_terms))
            if equal(err ** 2, want ** 2)[0] is not True:
                bad.append("arguments %s (%s): error %s, first-order propagation requires %s" % (order.replace("u", "uncertain ").replace("c", "constant "), "user gradient" if with_grad else "central difference", sp.simplify(err), want))
    chk.instance("C-align", "cal_err interpreted on %d cases (uncertain/constant argument orders x user gradient / central difference of a linear function): err == sqrt(sum (g_i e_i)^2) with e = 0 for constants: %s" % (n_cases, not bad))
    chk.instance("C-align", "cal_err: one value, one error and one derivative per argument (decided by the interpretation above)")
    if bad:
        chk.violation("C-align", fn.key, "alignment", "cal_err does not pair each derivative with the error of its own argument / combine them in quadrature: %s" % "; ".join(bad[:2]), file="tf_pwa/err_num.py", line=fn.lineno)
