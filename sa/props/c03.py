"""C03 - amplitudes superpose linearly; fit fractions obey the sum rule (structural clauses).

  (a) the three implementations of the fraction algebra (cal_fitfractions,
      cal_fitfractions_no_grad, FitFractions.get_frac_grad) agree with
         FF_i  = I_i / I                      g_i  = dI_i/I - (I_i/I) dI/I
         FF_ij = I_ij/I - FF_i - FF_j         g_ij = dI_ij/I - (I_ij/I) dI/I - g_i - g_j
      as exact identities of the extracted expressions, and visit the same index
      set {(i, j): 0 <= j <= i < n}
  (b) every chain traversal of DecayGroup builds its work list from
      self.chains_idx (all of it) and the coherent sum is a reduce_sum over the
      whole list of chain amplitudes
Proportionality to the coupling and batch independence of the value are numerical: not decided.
"""
import ast
import copy

import sympy as sp

from ..model import AnalysisError, norm_text, walk_local, walk_stmt
from ..sym import Translator, Unmodelled, equal

FF = "tf_pwa/fitfractions.py"
CORE = "tf_pwa/amp/core.py"

I, Iij, Gij, G, FFi, FFj, Gi, Gj = sp.symbols("I Iij Gij G FFi FFj Gi Gj")


class Rename(ast.NodeTransformer):
    """replace table look-ups by role symbols:  fitFrac[<..res[i]..>] -> FFi ..."""

    def __init__(self, frac_names, grad_names):
        self.frac_names, self.grad_names = frac_names, grad_names

    def visit_Subscript(self, n):
        base = norm_text(n.value)
        idx = norm_text(n.slice)
        role = None
        if base in self.frac_names:
            role = "FF"
        elif base in self.grad_names:
            role = "G"
        if role and isinstance(n.ctx, ast.Load):
            has_i = "[i]" in idx or idx == "i"
            has_j = "[j]" in idx or idx == "j"
            if has_i and not has_j:
                return ast.Name(id=role + "i_", ctx=ast.Load())
            if has_j and not has_i:
                return ast.Name(id=role + "j_", ctx=ast.Load())
        return self.generic_visit(n)


class InlineLocals(ast.NodeTransformer):
    """replace a local that is assigned exactly once in the function by its definition (temporaries such as
    name_i = str(self.res[i]) or ratio = int_tmp / int_mc), except the role names of the fraction algebra"""

    def __init__(self, fn, keep):
        self.defs = {}
        counts = {}
        for n in walk_local(fn.node):
            if isinstance(n, ast.Assign):
                for t in n.targets:
                    for x in ast.walk(t):
                        if isinstance(x, ast.Name) and isinstance(x.ctx, ast.Store):
                            counts[x.id] = counts.get(x.id, 0) + 1
                    if isinstance(t, ast.Name):
                        self.defs[t.id] = n.value
            elif isinstance(n, (ast.AugAssign, ast.AnnAssign)) and isinstance(n.target, ast.Name):
                counts[n.target.id] = counts.get(n.target.id, 0) + 2
            elif isinstance(n, (ast.For, ast.comprehension)):
                for x in ast.walk(n.target):
                    if isinstance(x, ast.Name):
                        counts[x.id] = counts.get(x.id, 0) + 2
        self.defs = {k: v for k, v in self.defs.items() if counts.get(k) == 1 and k not in keep}
        self.depth = 0

    def visit_Name(self, n):
        if isinstance(n.ctx, ast.Load) and n.id in self.defs and self.depth < 6:
            self.depth += 1
            try:
                return self.visit(copy.deepcopy(self.defs[n.id]))
            finally:
                self.depth -= 1
        return n


def eval_expr(repo, mod, expr, env):
    tr = Translator(repo)
    return tr.eval(expr, dict(env), mod, 0)


def frac_grad_by_interpretation(repo, chk):
    """FitFractions.get_frac_grad is pure dictionary algebra: interpret it for three resonances with symbolic
    integrals I_x, I_xy, their gradients and the totals, and compare every entry with the fraction algebra.
    Robust to any rewriting (temporaries, key variables, loop shape).  Returns the keys decided this way."""
    from ..sym import SelfObj

    key = "%s::FitFractions.get_frac_grad" % FF
    fn = repo.fn(key)
    names = ["a", "b", "c"]
    Itot, Gtot = sp.Symbol("I"), sp.Symbol("G")
    ci, cg = {}, {}
    for i, x in enumerate(names):
        ci[x], cg[x] = sp.Symbol("I_%s" % x), sp.Symbol("G_%s" % x)
        for y in names[:i]:
            ci[(x, y)], cg[(x, y)] = sp.Symbol("I_%s%s" % (x, y)), sp.Symbol("G_%s%s" % (x, y))
    tr = Translator(repo, hooks={"allow_attr_store": True, "builtin.str": None}, max_depth=2)
    so = SelfObj(fn.cls, {"res": list(names), "cached_int": dict(ci), "cached_grad": dict(cg), "cached_int_total": Itot, "cached_grad_total": Gtot})
    try:
        out = tr.call_fn(fn, [], {"sum_diag": True}, self_obj=so)
    except Unmodelled as e:
        chk.info("get_frac_grad not interpretable as dictionary algebra (%s): decided by formula extraction instead" % e)
        return set()
    if not (isinstance(out, tuple) and len(out) == 2 and isinstance(out[0], dict) and isinstance(out[1], dict)):
        raise AnalysisError("get_frac_grad no longer returns (fractions, gradients) dictionaries")
    ff, gg = out
    want_f, want_g = {}, {}
    for i, x in enumerate(names):
        want_f[x] = ci[x] / Itot
        want_g[x] = cg[x] / Itot - (ci[x] / Itot) * Gtot / Itot
    for i, x in enumerate(names):
        for y in names[:i]:
            want_f[(x, y)] = ci[(x, y)] / Itot - want_f[x] - want_f[y]
            want_g[(x, y)] = cg[(x, y)] / Itot - (ci[(x, y)] / Itot) * Gtot / Itot - want_g[x] - want_g[y]
    want_f["sum_diag"] = sum(want_f[x] for x in names)
    want_g["sum_diag"] = sum(want_g[x] for x in names)
    bad = []
    for label, got, want in (("fraction", ff, want_f), ("gradient", gg, want_g)):
        if set(got) != set(want):
            bad.append("%s keys %s, expected %s" % (label, sorted(map(str, got)), sorted(map(str, want))))
            continue
        for k in want:
            if equal(sp.sympify(got[k]), want[k])[0] is not True:
                bad.append("%s[%s] = %s, the fraction algebra requires %s" % (label, k, got[k], want[k]))
    chk.instance("A-frac", "FitFractions.get_frac_grad interpreted for three resonances: %d fractions and %d gradients (diagonal, interference, sum) equal FF_i=I_i/I, FF_ij=I_ij/I-FF_i-FF_j and the quotient-rule gradients: %s" % (len(want_f), len(want_g), not bad))
    chk.instance("A-index", "get_frac_grad visits %d index pairs for n=3 (complete: %s)" % (len([k for k in ff if k != "sum_diag"]), set(ff) == set(want_f)))
    if bad:
        chk.violation("A-frac", key, "algebra", "%d entries deviate from the fraction algebra; first: %s" % (len(bad), bad[0]), file=FF, line=fn.lineno)
    return {key}


def clause_a(repo, chk):
    chk.rule("A-frac", "E6: the diagonal / interference fraction and gradient formulas of every implementation equal FF_i=I_i/I, FF_ij=I_ij/I-FF_i-FF_j and the quotient-rule gradients")
    chk.rule("A-index", "all implementations visit the index set {(i,j): 0<=j<=i<n} (loop headers evaluated for n=4)")
    base_env = {"int_tmp": Iij, "int_mc": I, "g_int_tmp": Gij, "g_int_mc": G, "FFi_": FFi, "FFj_": FFj, "Gi_": Gi, "Gj_": Gj}
    want = {
        ("diag", "frac"): Iij / I,
        ("diag", "grad"): Gij / I - (Iij / I) * G / I,
        ("off", "frac"): Iij / I - FFi - FFj,
        ("off", "grad"): Gij / I - (Iij / I) * G / I - Gi - Gj,
    }
    impls = [
        ("%s::cal_fitfractions" % FF, {"fitFrac"}, {"g_fitFrac"}, True),
        ("%s::cal_fitfractions_no_grad" % FF, {"fitFrac"}, set(), False),
        ("%s::FitFractions.get_frac_grad" % FF, {"fit_frac"}, {"g_fit_frac"}, True),
    ]
    interpreted = frac_grad_by_interpretation(repo, chk)
    from .c03_order import fitfraction_functions_by_interpretation

    interpreted = set(interpreted) | fitfraction_functions_by_interpretation(repo, chk)
    for key, fracs, grads, has_grad in impls:
        fn = repo.fn(key)
        if key in interpreted:
            pairs = index_set(fn) if False else None
            continue
        found = {}
        # the gradient formula is whatever local ends up in a gradient table (g_fitFrac[..] = X, err_fitFrac[..] = X, g_fit_frac[..] = X)
        grad_locals = {st.value.id for st in walk_local(fn.node) if isinstance(st, ast.Assign) and isinstance(st.targets[0], ast.Subscript)
                       and norm_text(st.targets[0].value) in (grads | {"err_fitFrac"}) and isinstance(st.value, ast.Name)}
        # classify assignments by whether they sit on the i == j side
        def collect(stmts, kind):
            for st in stmts:
                if isinstance(st, ast.If) and norm_text(st.test) in ("i == j", "j == i"):
                    collect(st.body, "diag")
                    collect(st.orelse, "off")
                elif isinstance(st, ast.If) and norm_text(st.test) in ("i != j", "j != i"):
                    collect(st.body, "off")
                    collect(st.orelse, "diag")
                elif isinstance(st, ast.For):
                    inner_kind = kind
                    if kind == "outer-i" and norm_text(st.target) == "j":
                        inner_kind = "off" if "i - 1" in norm_text(st.iter) else "ij"
                    elif kind is None and norm_text(st.target) == "i":
                        inner_kind = "outer-i"
                    collect(st.body, inner_kind)
                elif isinstance(st, (ast.With, ast.Try)):
                    collect(st.body, kind)
                elif isinstance(st, ast.If):
                    collect(st.body, kind)
                    collect(st.orelse, kind)
                elif isinstance(st, ast.Assign) and len(st.targets) == 1:
                    t = st.targets[0]
                    tname = norm_text(t.value) if isinstance(t, ast.Subscript) else (t.id if isinstance(t, ast.Name) else None)
                    k = {"outer-i": "diag"}.get(kind, kind)
                    if k not in ("diag", "off"):
                        continue
                    if tname in fracs:
                        found[(k, "frac")] = st.value
                    elif isinstance(t, ast.Name) and t.id in grad_locals:
                        found[(k, "grad")] = st.value
                    elif (tname in grads or tname in ("err_fitFrac",)) and not isinstance(st.value, ast.Name):
                        found.setdefault((k, "grad"), st.value)
        collect(fn.node.body, None)
        need = [("diag", "frac"), ("off", "frac")] + ([("diag", "grad"), ("off", "grad")] if has_grad else [])
        for k in need:
            if k not in found:
                raise AnalysisError("%s: %s %s formula not found" % (key, k[0], k[1]))
            expr = InlineLocals(fn, {"int_tmp", "int_mc", "g_int_tmp", "g_int_mc", "i", "j"} | fracs | grads).visit(copy.deepcopy(found[k]))
            expr = Rename(fracs, grads).visit(expr)
            ast.fix_missing_locations(expr)
            try:
                val = eval_expr(repo, fn.mod, expr, base_env)
            except Unmodelled as e:
                raise AnalysisError("%s: cannot translate %s: %s" % (key, norm_text(found[k]), e))
            try:
                val = sp.sympify(val)
            except sp.SympifyError:
                raise AnalysisError("%s: `%s` does not reduce to the role symbols of the fraction algebra (%r)" % (key, norm_text(found[k]), val))
            ok, detail = equal(val, want[k])
            if ok is None:
                raise AnalysisError("normaliser too weak: %s" % detail)
            chk.instance("A-frac", "%s %s %s: %s == %s -> %s" % (key.split("::")[1], k[0], k[1], val, want[k], "ok" if ok else "FAIL"))
            if not ok:
                chk.violation("A-frac", key, "%s:%s" % k, "%s %s formula is %s, the fraction algebra requires %s (%s)" % (k[0], k[1], val, want[k], detail), file=FF, line=found[k].lineno)
        # the gradient that is stored for later interference terms is the diagonal one
        # index set
        pairs = index_set(fn)
        full = {(i, j) for i in range(4) for j in range(0, i + 1)}
        chk.instance("A-index", "%s visits %d index pairs for n=4 (%s)" % (key.split("::")[1], len(pairs), "complete" if pairs == full else "INCOMPLETE"))
        if pairs != full:
            chk.violation("A-index", key, "index-set", "visits %s, expected every (i,j) with 0<=j<=i<n; missing %s extra %s" % (sorted(pairs), sorted(full - pairs), sorted(pairs - full)), file=FF, line=fn.lineno)
    chk.require_count("A-frac", 3)
    chk.require_count("A-index", 1)


def index_set(fn, n=4):
    """evaluate the nested `for i in range(..): for j in range(..)` headers for a concrete n"""
    pairs = set()

    def rng(node, env):
        if not (isinstance(node, ast.Call) and isinstance(node.func, ast.Name) and node.func.id == "range"):
            raise AnalysisError("%s: loop header %s is not a range()" % (fn.key, norm_text(node)))
        vals = []
        for a in node.args:
            txt = norm_text(a)
            if txt in ("n", "n_res", "len(self.res)", "len(res)"):
                vals.append(n)
            else:
                # constant folding of the header argument by the checker's own evaluator
                vals.append(int(Translator(None).eval(a, {k: sp.Integer(v) for k, v in env.items()}, fn.mod, 0)))
        return range(*vals)

    outer = [s for s in walk_local(fn.node) if isinstance(s, ast.For) and norm_text(s.target) == "i" and "range" in norm_text(s.iter)]
    if not outer:
        raise AnalysisError("%s: outer loop over i not found" % fn.key)
    o = outer[0]
    inner = [s for s in ast.walk(o) if isinstance(s, ast.For) and norm_text(s.target) == "j"]
    if not inner:
        raise AnalysisError("%s: inner loop over j not found" % fn.key)
    # diagonal handled in the outer body when the inner range starts below i
    diag_outer = any(isinstance(s, ast.Assign) for s in o.body)
    for i in rng(o.iter, {}):
        js = list(rng(inner[0].iter, {"i": i}))
        for j in js:
            pairs.add((i, j))
        if diag_outer and i not in js:
            # the outer body writes the (i, i) entry itself
            wrote_diag = any(isinstance(s, ast.Assign) and isinstance(s.targets[0], ast.Subscript) for s in o.body)
            if wrote_diag:
                pairs.add((i, i))
    return pairs


TRAVERSALS = ["get_amp", "get_m_dep", "get_factor_angle_amp", "get_angle_amp"]
DECIDED_BY_INTERPRETATION = {"get_amp", "get_m_dep", "get_factor_angle_amp", "get_angle_amp"}


def clause_b(repo, chk):
    chk.rule("B-chains", "every DecayGroup traversal takes [self.chains[i] for i in self.chains_idx] (whole selection, no slice), visits each used chain and (get_amp) reduces the whole list with reduce_sum")
    cls = repo.cls("%s::DecayGroup" % CORE)
    for name in TRAVERSALS:
        fn = cls.methods.get(name)
        if fn is None:
            raise AnalysisError("anchor vanished: DecayGroup.%s" % name)
        src = None
        for n in walk_local(fn.node):
            if isinstance(n, ast.Assign) and isinstance(n.targets[0], ast.Name) and n.targets[0].id == "used_chains":
                src = n.value
        ok_src = False
        if src is not None:
            comp = [x for x in ast.walk(src) if isinstance(x, (ast.ListComp, ast.GeneratorExp))]
            if comp:
                c = comp[0]
                g = c.generators[0]
                ok_src = norm_text(g.iter) == "self.chains_idx" and not g.ifs and norm_text(c.elt) == "self.chains[%s]" % norm_text(g.target)
        # the loop that appends chain amplitudes iterates used_chains or chain_maps built from used_chains
        loops = [n for n in fn.node.body if isinstance(n, ast.For)]
        ok_loop = False
        for lp in loops:
            it = norm_text(lp.iter)
            if it == "used_chains":
                ok_loop = True
            if it == "chain_maps":
                cm = [n for n in walk_local(fn.node) if isinstance(n, ast.Assign) and norm_text(n.targets[0]) == "chain_maps"]
                ok_loop = bool(cm) and norm_text(cm[0].value) == "self.get_chains_map(used_chains)"
            # no break / continue at the chain-loop level (inner search loops may break)
            for st in lp.body:
                if isinstance(st, (ast.Break, ast.Continue)):
                    ok_loop = False
                if isinstance(st, ast.If) and any(isinstance(x, (ast.Break, ast.Continue)) for x in st.body + st.orelse):
                    ok_loop = False
        appended = any(isinstance(n, ast.Call) and isinstance(n.func, ast.Attribute) and n.func.attr == "append" and norm_text(n.func.value) == "ret" for lp in loops for n in ast.walk(lp))
        ok = ok_src and ok_loop and appended
        extra = ""
        if name == "get_amp":
            red = [n for n in walk_local(fn.node) if isinstance(n, ast.Call) and norm_text(n.func) == "tf.reduce_sum"]
            ok_red = any(r.args and norm_text(r.args[0]) == "ret" and any(k.arg == "axis" and norm_text(k.value) == "0" for k in r.keywords) for r in red)
            ok = ok and ok_red
            extra = " reduce_sum(ret, axis=0):%s" % ok_red
        chk.instance("B-chains", "DecayGroup.%s: work list from chains_idx:%s loop over it:%s append:%s%s" % (name, ok_src, ok_loop, appended, extra), nontrivial=False)
        if name in DECIDED_BY_INTERPRETATION:
            continue   # B-order / B-sum interpret this traversal: its statement shape is reported, not judged
        if not ok:
            chk.violation("B-chains", fn.key, "traversal", "the traversal must build its work list from all of self.chains_idx, visit every used chain and collect every chain amplitude%s (source ok=%s, loop ok=%s, append=%s%s)" % (" and sum them with reduce_sum(axis=0)" if name == "get_amp" else "", ok_src, ok_loop, appended, extra), file=CORE, line=fn.lineno)
    # selection writers: set_used_chains rebinds the complete list it is given
    suc = cls.methods["set_used_chains"]
    from .c17 import _set_used_chains_flag

    # interpreted on selections of every length of a three-chain group: chains_idx == list(used), flag consistent
    ok = _set_used_chains_flag(repo, suc)
    chk.instance("B-chains", "set_used_chains stores the whole argument (interpreted on six selections): %s" % ok)
    if not ok:
        chk.violation("B-chains", suc.key, "store", "set_used_chains must store list(used_chains) unchanged", file=CORE, line=suc.lineno)
    chk.require_count("B-chains", 5)


def check_selection_map(repo, chk, fn):
    """finite-domain interpretation of set_used_res (with the real set_used_chains / add_used_chains / get_res_map inlined)
    on small worlds of chains: the code only tests membership and equality of particle names, so its behaviour on a
    world is determined by the incidence relation chain x resonance; all subsets of three resonances are enumerated"""
    import itertools

    from ..sym import PySet, Raised, SelfObj, Translator, Unmodelled

    chk.rule("C-selmap", "set_used_res(res, only) activates exactly the chains {j : inner_j meets res} (only=False) resp. {j : inner_j avoids every resonance not in res} (only=True), plus the chain indices given explicitly, without duplicates - interpreted on every subset of the resonances of small worlds in which a resonance occurs in several chains")
    cls = repo.cls("%s::DecayGroup" % CORE)

    def isinst(tr, args, kwargs, n):
        v, t = args[0], n.args[1]
        names = [norm_text(e) for e in (t.elts if isinstance(t, ast.Tuple) else [t])]
        if isinstance(v, PySet):
            return "set" in names
        if getattr(v, "is_Integer", False):
            v = int(v)
        table = {"str": str, "int": int, "list": list, "tuple": tuple}
        return isinstance(v, tuple(table[x] for x in names if x in table)) if any(x in table for x in names) else False

    hooks = {"builtin.isinstance": isinst, "tf_pwa/particle.py::BaseParticle": lambda tr, args, kwargs, n: args[0], "allow_raise": True, "allow_attr_store": True}
    worlds = [
        [["a", "b"], ["a"], ["c"], ["b", "c"], []],  # a, b, c each in two chains; one chain without resonance
        [["a"], ["b"], ["c"]],  # one resonance per chain
        [["a", "b", "c"], ["a", "b"], ["a"]],  # nested cascades
    ]
    n_cases, bad = 0, []
    for inners in worlds:
        names = sorted({x for i in inners for x in i})
        for r in range(len(names) + 1):
            for R in itertools.combinations(names, r):
                for only in (False, True):
                    for extra in ([], [len(inners) - 1]):
                        for scalar in ((False, True) if len(R) == 1 and not extra else (False,)):
                            tr = Translator(repo, hooks=hooks, max_depth=6)
                            so = SelfObj(cls, {"chains": [SelfObj(None, {"inner": list(i)}) for i in inners], "resonances": list(names), "chains_idx": list(range(len(inners)))})
                            arg = R[0] if scalar else list(R) + list(extra)
                            try:
                                tr.call_fn(fn, [arg, only], self_obj=so)
                            except Raised as e:
                                bad.append("world %s res=%s only=%s: raises %s" % (inners, arg, only, e))
                                n_cases += 1
                                continue
                            except Unmodelled as e:
                                raise AnalysisError("set_used_res is not interpretable on the finite worlds: %s" % e)
                            got = [int(x) for x in so.attrs["chains_idx"]]
                            if only:
                                want = {j for j, i in enumerate(inners) if not (set(i) - set(R))}
                            else:
                                want = {j for j, i in enumerate(inners) if set(i) & set(R)}
                            want |= set(extra)
                            n_cases += 1
                            if set(got) != want or len(got) != len(set(got)):
                                bad.append("chains %s, res=%s, only=%s: active chains %s, expected %s" % (inners, arg, only, got, sorted(want)))
    chk.oblige("C-selmap", "set_used_res interpreted on %d (world, resonance subset, only, explicit index) cases: %d deviations" % (n_cases, len(bad)), not bad)
    if bad:
        chk.violation("C-selmap", fn.key, "selection-map", "selecting resonances does not activate the corresponding chains in %d of %d cases; first: %s" % (len(bad), n_cases, bad[0]), file=CORE, line=fn.lineno)
    if n_cases < 60:
        raise AnalysisError("C-selmap: only %d cases interpreted" % n_cases)


def clause_c(repo, chk):
    """selection by resonance name visits every chain; fit-fraction accumulators are reset per integral"""
    chk.rule("C-accum", "every accumulator that FitFractions.append_int adds to is reset by init_res_table, and integral() calls init_res_table before accumulating (results do not depend on earlier calls)")
    fn = repo.fn("%s::DecayGroup.set_used_res" % CORE)
    check_selection_map(repo, chk, fn)
    # accumulators
    cls = repo.cls("%s::FitFractions" % FF)
    app, ini, integ = cls.methods.get("append_int"), cls.methods.get("init_res_table"), cls.methods.get("integral")
    if not (app and ini and integ):
        raise AnalysisError("FitFractions.append_int / init_res_table / integral vanished")
    acc = set()
    for n in walk_local(app.node):
        if isinstance(n, ast.AugAssign):
            t = n.target
            base = t.value if isinstance(t, ast.Subscript) else t
            if isinstance(base, ast.Attribute) and isinstance(base.value, ast.Name) and base.value.id == "self":
                acc.add(base.attr)
        if isinstance(n, ast.Assign) and isinstance(n.targets[0], ast.Subscript):
            base = n.targets[0].value
            if isinstance(base, ast.Attribute) and isinstance(base.value, ast.Name) and base.value.id == "self" and norm_text(n.targets[0]) in norm_text(n.value):
                acc.add(base.attr)
    # what init_res_table leaves behind, by interpretation (helpers it calls are inlined): every accumulator is zero
    from ..sym import SelfObj

    tr = Translator(repo, hooks={"allow_attr_store": True, "concrete_zeros": True, "stack_as_array": True}, max_depth=4)
    # start from accumulators that already hold something (a previous integral)
    dirty = sp.Symbol("previous")
    so = SelfObj(cls, {"res": ["a", "b"], "n_var": sp.Integer(2), "cached_int": {"a": dirty, "b": dirty, ("b", "a"): dirty}, "cached_grad": {"a": dirty, "b": dirty, ("b", "a"): dirty},
                       "cached_int_total": dirty, "cached_grad_total": dirty})
    try:
        tr.call_fn(ini, [], self_obj=so)
    except Unmodelled as e:
        raise AnalysisError("FitFractions.init_res_table not interpretable: %s" % e)

    def is_zero(v):
        import numpy as _np

        if isinstance(v, dict):
            return bool(v) and all(is_zero(x) for x in v.values())
        if isinstance(v, _np.ndarray):
            return all(sp.sympify(x) == 0 for x in v.reshape(-1))
        try:
            return sp.sympify(v) == 0
        except Exception:
            return False

    reset = {a for a in so.attrs if a not in ("res", "n_var") and is_zero(so.attrs[a])}
    first_calls = [norm_text(x.func) for st in integ.node.body for x in ast.walk(st) if isinstance(x, ast.Call) and isinstance(x.func, ast.Attribute) and isinstance(x.func.value, ast.Name) and x.func.value.id == "self"]
    order_ok = "self.init_res_table" in first_calls and "self.append_int" in first_calls and first_calls.index("self.init_res_table") < first_calls.index("self.append_int")
    chk.instance("C-accum", "append_int accumulates into %s; init_res_table resets %s; integral resets first: %s" % (sorted(acc), sorted(reset), order_ok))
    if len(acc) < 4:
        raise AnalysisError("FitFractions.append_int: only %d accumulators recognised" % len(acc))
    missing = sorted(acc - reset)
    if missing:
        chk.violation("C-accum", ini.key, "unreset:" + ",".join(missing), "accumulator(s) %s are added to by append_int but not reset by init_res_table: a second integral() on the same object adds to the previous totals" % missing, file=FF, line=ini.lineno)
    if not order_ok:
        chk.violation("C-accum", integ.key, "order", "integral() must call init_res_table() before append_int()", file=FF, line=integ.lineno)


def clause_zip(repo, chk):
    """the cached-amplitude model pairs, chain by chain, the parameter vectors with the cached angular parts: both lists
    must be in the order of the chain selection (round-4 seed)"""
    from ..sym import SelfObj, Translator, Unmodelled
    AMPF = "tf_pwa/amp/amp.py"
    chk.rule("B-zip", "CachedAmpAmplitudeModel.pdf, interpreted up to its chain loop with the selection chains_idx = [2, 0] (and [0, 1, 2], [1]): the list zipped with build_params_vector's result (which follows chains_idx) holds the cached parts of the same chains in the same order")
    cls = repo.cls(AMPF + "::CachedAmpAmplitudeModel")
    fn = cls.methods.get("pdf")
    if fn is None:
        raise AnalysisError("anchor vanished: CachedAmpAmplitudeModel.pdf")
    loops = [st for st in fn.node.body if isinstance(st, ast.For) and any(isinstance(c, ast.Call) and isinstance(c.func, ast.Name) and c.func.id == "zip" for c in ast.walk(st.iter))]
    if len(loops) != 1:
        raise AnalysisError("CachedAmpAmplitudeModel.pdf: expected one loop over zip(parameter vectors, cached parts), found %d" % len(loops))
    lp = loops[0]
    zc = [c for c in ast.walk(lp.iter) if isinstance(c, ast.Call) and isinstance(c.func, ast.Name) and c.func.id == "zip"][0]
    bad = None
    for sel in ([2, 0], [0, 1, 2], [1]):
        idx = [sp.Integer(i) for i in sel]
        dg = SelfObj(None, {"chains_idx": list(idx)})
        so = SelfObj(cls, {"decay_group": dg})
        hooks = {"numeric_call_first": lambda tr_, d, a, k, n: ([("pv", int(i)) for i in idx] if d.split(".")[-1] == "build_params_vector" else (sp.Integer(9) if d.split(".")[-1] == "data_shape" else NotImplemented))}
        for g in repo.func_by_name.get("build_params_vector", []):
            hooks[g.key] = lambda tr_, a_, k_, n_: [("pv", int(i)) for i in idx]
        for g in repo.func_by_name.get("data_shape", []):
            hooks[g.key] = lambda tr_, a_, k_, n_: sp.Integer(9)
        tr = Translator(repo, hooks=hooks, max_depth=2)
        env = {"self": so, "data": {"cached_amp": [("cached", k) for k in range(3)]}}
        try:
            for st in fn.node.body:
                if st is lp:
                    break
                tr.exec_stmt(st, env, fn.mod, 0)
            lists = [tr.eval(a_, env, fn.mod, 0) for a_ in zc.args]
        except Unmodelled as e:
            raise AnalysisError("CachedAmpAmplitudeModel.pdf cannot be interpreted up to its chain loop: %s" % e)
        pv = [l for l in lists if isinstance(l, list) and l and isinstance(l[0], tuple) and l[0][0] == "pv"]
        cd = [l for l in lists if isinstance(l, list) and l and isinstance(l[0], tuple) and l[0][0] == "cached"]
        if len(pv) != 1 or len(cd) != 1:
            raise AnalysisError("CachedAmpAmplitudeModel.pdf: the zipped lists are not (parameter vectors, cached parts): %r" % (lists,))
        if [k for _, k in pv[0]] != [k for _, k in cd[0]] and bad is None:
            bad = "with chains_idx = %s the parameter vectors of the chains %s are paired with the cached angular parts of the chains %s" % (sel, [k for _, k in pv[0]], [k for _, k in cd[0]])
    chk.oblige("B-zip", "CachedAmpAmplitudeModel.pdf pairs parameters and cached parts of the same chain for 3 selections", bad is None)
    if bad:
        chk.violation("B-zip", fn.key, "pairing", bad + ": couplings of one chain multiply the angular part of another (partial sums and fit fractions by chain index are wrong)", file=AMPF, line=lp.lineno)


def run(repo, chk, tier):
    # B-zip: the cached-amplitude models pair parameters and cached parts of the same chain (shared with C05: consumers
    # of data['cached_amp'] interpreted up to their zip for three chain selections)
    from .c05_cachedkey import check_cached_key_pairing

    check_cached_key_pairing(repo, chk, rule="B-zip", only_key="cached_amp")
    from .c03_order import check_cached_fun_guard, check_coherent_sum, check_masked_read, check_selection_maps, check_selection_order

    check_selection_order(repo, chk)
    check_selection_maps(repo, chk)
    check_masked_read(repo, chk)
    check_coherent_sum(repo, chk)
    check_cached_fun_guard(repo, chk)
    from ..cacheown import check_persistent_state

    check_persistent_state(repo, chk, ["tf_pwa/fitfractions.py", "tf_pwa/amp/amp.py"])
    from ..cacheown import check_class_level_mutables

    check_class_level_mutables(repo, chk, ["tf_pwa/fitfractions.py", "tf_pwa/amp/"])
    clause_a(repo, chk)
    clause_b(repo, chk)
    clause_c(repo, chk)
