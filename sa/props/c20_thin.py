"""C20 seed-driven clause T-thin: when the acceptance bound of the toy generator grows, events accepted
under the old bound are thinned with probability old_bound/new_bound *computed from the old bound*.

  multi_sampling:   if new_max_weight > max_weight and len(all_data) > 0:
                        cut = rnd * new_max_weight / max_weight < 1      # reads the OLD max_weight
                        max_weight = new_max_weight * k  (k >= 1)        # raised afterwards
                        tmp = data_mask(<merged earlier data>, cut)
Raising the bound before the mask is computed makes the mask all-true: earlier events are never thinned and
the sample no longer follows the density (the returned count and the per-event bound still look right).
"""
import ast

import sympy as sp

from ..model import AnalysisError, const_value, norm_text, walk_local
from ..sym import Translator, Unmodelled, equal

GEN = "tf_pwa/generator/generator.py"


def check_thinning(repo, chk):
    chk.rule("T-thin", "multi_sampling thins earlier accepted events with the mask rnd*new_bound/old_bound < 1 computed before the bound is raised, applies it to the merged earlier data, and raises the bound to at least the new maximum")
    fn = repo.fn(GEN + "::multi_sampling")
    blk = None
    for n in walk_local(fn.node):
        if isinstance(n, ast.If) and "new_max_weight > max_weight" in norm_text(n.test):
            blk = n
    if blk is None:
        raise AnalysisError("multi_sampling: `if new_max_weight > max_weight ...` block not found")
    # the statements of the block are executed symbolically in order (simple assignments only), starting from the old
    # bound OLD and the new maximum NEW: what matters is the VALUE the mask is computed from, not the statement order
    rnd, new, old = sp.symbols("rnd new_max_weight max_weight", positive=True)
    tr = Translator(repo, hooks={"numeric_call": lambda tr_, d, a, k, n: rnd if d.split(".")[-1] == "uniform" else NotImplemented, "allow_shape": True}, max_depth=1)
    env = {"rnd": rnd, "new_max_weight": new, "max_weight": old}
    idx_cut = idx_max = idx_mask = None
    cut_expr = max_expr = None
    mask_call = None
    cut_val = None
    max_val = None
    captured = {}

    class T2(Translator):
        def compare(self, op, a, b):
            try:
                sa_, sb_ = sp.sympify(a), sp.sympify(b)
            except Exception:
                return Translator.compare(self, op, a, b)
            if isinstance(op, (ast.Lt, ast.LtE, ast.Gt, ast.GtE)) and (sa_.has(rnd) or sb_.has(rnd)):
                lt = isinstance(op, (ast.Lt, ast.LtE))
                captured["ratio"] = (sa_ / sb_) if lt else (sb_ / sa_)
                return sp.Symbol("CUT")
            return Translator.compare(self, op, a, b)

    tr = T2(repo, hooks=tr.hooks, max_depth=1)
    for k, st in enumerate(blk.body):
        if isinstance(st, ast.Assign) and len(st.targets) == 1 and isinstance(st.targets[0], ast.Name):
            t = st.targets[0].id
            is_mask = isinstance(st.value, ast.Call) and norm_text(st.value.func).endswith("data_mask")
            if is_mask:
                idx_mask, mask_call = k, st.value
                continue
            before = dict(captured)
            try:
                tr.exec_stmt(st, env, fn.mod, 0)
            except Unmodelled:
                if "uniform" in norm_text(st.value):
                    env[t] = rnd  # the uniform variate the mask is drawn with
                else:
                    env.pop(t, None)
                continue
            if "ratio" in captured and captured.get("ratio") is not before.get("ratio") and idx_cut is None:
                idx_cut, cut_expr, cut_val = k, st.value, captured["ratio"]
            if t == "max_weight":
                idx_max, max_expr, max_val = k, st.value, env.get("max_weight")
    if None in (idx_cut, idx_max, idx_mask):
        raise AnalysisError("multi_sampling: thinning block lost its cut / max_weight / data_mask statements")
    # the mask must be rnd * new / OLD < 1 with OLD the bound before it was raised
    form_ok = cut_val is not None and bool(equal(cut_val, rnd * new / old)[0])
    order_ok = form_ok or not (cut_val is not None and sp.sympify(cut_val).has(new) and not sp.sympify(cut_val).has(old))
    # applied to the merged earlier data
    applied = len(mask_call.args) == 2 and norm_text(mask_call.args[1]) == "cut"
    merged = any(isinstance(st, ast.Assign) and norm_text(st.value).startswith("data_merge(*all_data)") and norm_text(st.targets[0]) == norm_text(mask_call.args[0]) for st in blk.body[: idx_mask])
    # bound raised to >= new maximum
    raised = False
    if max_val is not None:
        ratio_b = sp.simplify(sp.sympify(max_val) / new)
        raised = bool(ratio_b.is_number and ratio_b >= 1)
    chk.instance("T-thin", "multi_sampling: mask before bound update: %s; mask == rnd*new/old < 1: %s; applied to merged earlier data: %s; bound raised to >= new maximum: %s" % (order_ok, form_ok, applied and merged, raised))
    if not order_ok:
        chk.violation("T-thin", fn.key, "order", "the bound `max_weight` is raised (statement %d of the block) before the thinning mask is computed (statement %d): the mask then compares the new bound with itself and keeps every earlier event" % (idx_max + 1, idx_cut + 1), file=GEN, line=blk.body[idx_max].lineno)
    if not form_ok:
        chk.violation("T-thin", fn.key, "formula", "thinning mask `%s` is not rnd * new_max_weight / max_weight < 1 (keep probability old/new)" % norm_text(cut_expr), file=GEN, line=blk.body[idx_cut].lineno)
    if not (applied and merged):
        chk.violation("T-thin", fn.key, "apply", "the thinning mask is not applied to the merged earlier sample", file=GEN, line=blk.body[idx_mask].lineno)
    if not raised:
        chk.violation("T-thin", fn.key, "raise", "after thinning the bound is not raised to at least the new maximum weight: `%s`" % norm_text(max_expr), file=GEN, line=blk.body[idx_max].lineno)
    # the acceptance kernel single_sampling2 is decided by check_accept_bound (symbolic evaluation of all paths)


class _Counter:
    """stand-in for GenTest: hands out a fixed list of batch sizes and records the accepted-event counter"""

    def __init__(self, sizes):
        self.sizes, self.n_gen, self.log = list(sizes), 0, []


def check_multi_sampling(repo, chk):
    """multi_sampling interpreted as a whole on batches of event tokens with a scripted acceptance step"""
    from ..sym import PyFunc, TensorList
    import numpy as np
    chk.rule("M-sem", "multi_sampling interpreted on batches of event tokens (scripted single_sampling2: the batch maxima 10, 20, 15, 30 make the bound grow twice): earlier events are thinned with keep <=> rnd * new / old < 1 for the bound `old` they were accepted with, every later acceptance step is given a bound >= the largest maximum seen, the returned sample is the thinned earlier events followed by the later batches, the accepted-event counter equals the size of that sample, and force cuts it to exactly N")
    fn = repo.fn(GEN + "::multi_sampling")
    ss2 = repo.fn(GEN + "::single_sampling2")
    gt = repo.cls(GEN + "::GenTest")
    R = sp.Rational
    pattern = [R(1, 10), R(1, 2), R(3, 5), R(9, 10), R(3, 10)]
    maxima = [sp.Integer(10), sp.Integer(20), sp.Integer(15), sp.Integer(30)]
    sizes = [6, 6, 6, 6]
    for force, want_n in ((False, None), (True, 9)):
        counter = _Counter(sizes)
        passed = []

        def sampler(tr, a, k, n):
            names = ss2.all_param_names()
            b = dict(zip(names, a))
            b.update(k)
            kk = len(passed)
            passed.append(b.get("max_weight"))
            return TensorList((kk, j) for j in range(int(b["N"]))), maxima[kk]

        def first(tr, d, args, kwargs, n):
            last = d.split(".")[-1]
            if last == "uniform":
                shp = args[0] if args else kwargs.get("shape", kwargs.get("size"))
                m = int(shp[0]) if isinstance(shp, (tuple, list)) else int(shp)
                return np.array([pattern[j % len(pattern)] for j in range(m)], dtype=object)
            if last == "data_merge":
                return TensorList(x for part in args for x in part)
            if last == "data_shape":
                return sp.Integer(len(args[0]))
            if last == "data_mask":
                m_ = np.asarray(args[1], dtype=object).reshape(-1)
                if len(m_) != len(args[0]):
                    raise AnalysisError("multi_sampling applies a mask of %d entries to %d events" % (len(m_), len(args[0])))
                return TensorList(x for x, keep in zip(args[0], m_) if keep is sp.true or keep is True)
            return NotImplemented

        def attribute(tr, obj, attr, n):
            if isinstance(obj, _Counter):
                if attr == "generate":
                    return PyFunc(lambda N: [sp.Integer(x) for x in obj.sizes])
                if attr == "add_gen":
                    return PyFunc(lambda v: (obj.log.append(("add", int(v))), setattr(obj, "n_gen", obj.n_gen + int(v)))[0])
                if attr == "set_gen":
                    return PyFunc(lambda v: (obj.log.append(("set", int(v))), setattr(obj, "n_gen", int(v)))[0])
                if attr == "N_gen":
                    return sp.Integer(obj.n_gen)
            raise Unmodelled("attribute %s of %r" % (attr, obj))

        hooks = {ss2.key: sampler, gt.key: lambda tr_, a_, k_, n_: counter, "numeric_call_first": first, "attribute": attribute}
        for nm in ("data_merge", "data_shape", "data_mask"):
            f_ = repo.fn_opt("tf_pwa/data.py::" + nm)
            if f_ is not None:
                hooks[f_.key] = (lambda nm_: (lambda tr_, a_, k_, n_: first(tr_, nm_, list(a_), k_, n_)))(nm)
        tr = Translator(repo, hooks=hooks, max_depth=2)
        try:
            out = tr.call_fn(fn, ["PHSP", "AMP", sp.Integer(want_n or 1000)], {"force": force, "display": False})
        except Unmodelled as e:
            raise AnalysisError("multi_sampling cannot be interpreted: %s" % e)
        if not (isinstance(out, tuple) and len(out) == 2 and isinstance(out[0], list)):
            raise AnalysisError("multi_sampling no longer returns (data, status)")
        got = list(out[0])
        # reference: the bound each step was accepted with is what the code handed to that step
        why = None
        kept, bound_seen = [], None
        for k, new in enumerate(maxima):
            old = passed[k] if k < len(passed) else None
            if k > 0 and old is None:
                why = "acceptance step %d is not given the current bound" % (k + 1)
                break
            if k > 0 and sp.sympify(old) < max(maxima[:k]):
                why = "acceptance step %d is given the bound %s, below the maximum weight %s already seen: later events are accepted with a probability that is too high" % (k + 1, old, max(maxima[:k]))
                break
            if old is not None and new > sp.sympify(old) and kept:
                kept = [t for j, t in enumerate(kept) if pattern[j % len(pattern)] * new / sp.sympify(old) < 1]
            kept = kept + [(k, j) for j in range(sizes[k])]
        if why is None:
            want = kept if not force else kept[:want_n]
            if got != want:
                if sorted(got) == sorted(want):
                    why = "the sample is returned in another order than accepted"
                else:
                    why = "returns %d events %s..., the thinning rule keep <=> rnd*new/old < 1 gives %d events %s..." % (len(got), got[:8], len(want), want[:8])
            elif counter.n_gen != len(kept):
                why = "the accepted-event counter ends at %d but %d events are in the sample (counter log %s): the generation loop stops too early / too late" % (counter.n_gen, len(kept), counter.log)
        chk.oblige("M-sem", "multi_sampling(force=%s): %d events returned, counter %d, bounds handed to the steps %s" % (force, len(got), counter.n_gen, [str(x) for x in passed]), why is None)
        if why:
            chk.violation("M-sem", fn.key, "force=%s" % force, "multi_sampling(force=%s) on four scripted batches: %s" % (force, why), file=GEN, line=fn.lineno)


def check_accept_bound(repo, chk):
    """single_sampling2 evaluated symbolically on its four paths (importance function given or not, bound given or not):
    the quantity whose maximum defines the bound is the very quantity compared with rnd * bound in the accept test"""
    from ..sym import PyFunc

    chk.rule("A-bound", "single_sampling2: on every path the accept test compares rnd * bound with the same weight expression whose maximum (times a factor >= 1) the bound is raised to; with an importance function both are amp/importance")
    fn = repo.fn(GEN + "::single_sampling2")
    Wt, Ft, M0 = sp.symbols("W F M0", positive=True)
    RMAX = sp.Function("reduce_max")
    n_paths = 0
    for with_imp in (False, True):
        for bound in ("none", "given-low", "given-high"):
            seen = {}

            def numeric(tr, d, args, kwargs, n):
                last = d.split(".")[-1]
                if last == "reduce_max":
                    seen.setdefault("max_arg", []).append(sp.sympify(args[0]))
                    return RMAX(sp.sympify(args[0]))
                if last == "uniform":
                    return sp.Symbol("rnd", positive=True)
                return NotImplemented

            def policy(cond, tr):
                # max_weight < new_max_weight : explored both ways
                return bound == "given-low"

            def mask(tr, args, kwargs, n):
                seen["mask"] = args[1]
                return ("masked", args[0])

            captured = {}

            class T(Translator):
                def compare(self, op, a, b):
                    if isinstance(op, (ast.Lt, ast.Gt, ast.LtE, ast.GtE)) and getattr(a, "has", None) and sp.sympify(a).has(sp.Symbol("rnd", positive=True)):
                        captured["cut"] = ({"Lt": "Lt", "Gt": "Gt", "LtE": "Lt", "GtE": "Gt"}[type(op).__name__], sp.sympify(a), sp.sympify(b))
                        captured["strict"] = isinstance(op, (ast.Lt, ast.Gt))
                        return sp.Symbol("CUT")
                    if isinstance(op, (ast.Lt, ast.Gt, ast.LtE, ast.GtE)) and getattr(b, "has", None) and sp.sympify(b).has(sp.Symbol("rnd", positive=True)):
                        captured["cut"] = ("Gt" if isinstance(op, (ast.Lt, ast.LtE)) else "Lt", sp.sympify(b), sp.sympify(a))
                        captured["strict"] = isinstance(op, (ast.Lt, ast.Gt))
                        return sp.Symbol("CUT")
                    return Translator.compare(self, op, a, b)

            tr = T(repo, hooks={"numeric_call": numeric, "allow_shape": True, "tf_pwa/data.py::data_mask": mask}, where_policy=policy, max_depth=3)
            args = [PyFunc(lambda n_: sp.Symbol("DATA")), PyFunc(lambda d_: Wt), sp.Symbol("N", positive=True), None if bound == "none" else M0, PyFunc(lambda d_: Ft) if with_imp else None]
            try:
                out = tr.call_fn(fn, args)
            except Unmodelled as e:
                raise AnalysisError("single_sampling2 is not interpretable symbolically (%s, bound %s): %s" % ("importance" if with_imp else "plain", bound, e))
            n_paths += 1
            want_w = Wt / Ft if with_imp else Wt
            label = "%s, bound %s" % ("with importance_f" if with_imp else "no importance_f", bound)
            if "cut" not in captured or not seen.get("max_arg"):
                raise AnalysisError("single_sampling2 (%s): accept test / reduce_max not found on the path" % label)
            kind, lhs, rhs = captured["cut"]  # lhs contains rnd
            ret_bound = sp.sympify(out[1]) if isinstance(out, tuple) and len(out) == 2 else None
            if ret_bound is None:
                raise AnalysisError("single_sampling2 no longer returns (data, bound)")
            # all quantities positive: accept iff lhs < rhs  <=>  lhs/rhs < 1 ; required: lhs/rhs == rnd * bound / weight
            if not captured.get("strict", True):
                chk.violation("A-bound", fn.key, "non-strict:%s" % label, "the accept test is not strict (`rnd * bound <= weight`): an event of weight 0 is accepted whenever rnd * bound is 0 - in a first batch whose weights all vanish the bound is 0 and every zero-density candidate is returned", file=GEN, line=fn.lineno)
            ok_w = kind == "Lt" and equal(lhs / rhs, sp.Symbol("rnd", positive=True) * ret_bound / want_w)[0] is True
            ok_max = equal(seen["max_arg"][-1], want_w)[0] is True
            ok_lhs = ok_w
            if bound == "given-high":
                ok_b = equal(ret_bound, M0)[0] is True
            else:
                ratio = sp.simplify(ret_bound / RMAX(want_w))
                ok_b = bool(ratio.is_number and ratio >= 1)
            chk.oblige("A-bound", "single_sampling2 (%s): accept iff rnd * returned bound < %s: %s; maximum taken of the same expression: %s%s; bound %s: %s" % (label, want_w, ok_w, ok_max, "" if ok_lhs else "", "kept" if bound == "given-high" else ">= maximum", ok_b), ok_w and ok_max and ok_lhs and ok_b)
            if not ok_max:
                chk.violation("A-bound", fn.key, "max-of:%s" % ("importance" if with_imp else "plain"), "%s: the bound is raised to the maximum of `%s` while events are accepted with weight `%s`: candidates above the bound are always accepted and the sample no longer follows the density" % (label, seen["max_arg"][-1], rhs), file=GEN, line=fn.lineno)
            if not ok_w or not ok_lhs:
                chk.violation("A-bound", fn.key, "accept:%s" % ("importance" if with_imp else "plain"), "%s: accept test is `%s %s %s`, expected rnd * bound < %s" % (label, lhs, "<" if kind == "Lt" else ">", rhs, want_w), file=GEN, line=fn.lineno)
            if not ok_b:
                chk.violation("A-bound", fn.key, "bound:%s:%s" % ("importance" if with_imp else "plain", bound), "%s: returned bound `%s` is not %s" % (label, ret_bound, "the given bound" if bound == "given-high" else "at least the maximum weight of the batch"), file=GEN, line=fn.lineno)
    if n_paths < 6:
        raise AnalysisError("A-bound: %d paths" % n_paths)


def check_interp_sampling(repo, chk):
    """interp_sample_f (the sibling of multi_sampling for the 1-d interpolated importance sampler) interpreted on
    scripted batches: after thinning, the progress counter is the number of events actually kept"""
    from ..sym import PyFunc
    import numpy as np
    LIN = "tf_pwa/generator/linear_interpolation.py"
    fn = repo.fn_opt(LIN + "::interp_sample_f")
    once = repo.fn_opt(LIN + "::interp_sample_once")
    gt = repo.cls(GEN + "::GenTest")
    if fn is None or once is None:
        raise AnalysisError("anchor vanished: interp_sample_f / interp_sample_once")
    chk.rule("M-interp", "interp_sample_f interpreted on four scripted batches (bounds 10, 20, 15, 30: raised twice): earlier events are thinned with keep <=> rnd > 1 - old/new, the sample is the thinned earlier events followed by the later batches, and after every batch the progress counter equals the number of events held (so the loop delivers the N events asked for)")
    R = sp.Rational
    pattern = [R(1, 10), R(1, 2), R(3, 5), R(9, 10), R(3, 10)]
    maxima = [sp.Integer(10), sp.Integer(20), sp.Integer(15), sp.Integer(30)]
    sizes = [6, 6, 6, 6]
    counter = _Counter(sizes)
    held = []   # (counter value, events held) after every batch
    passed = []

    def sampler(tr, a, k, n):
        b = dict(zip(once.all_param_names(), a))
        b.update(k)
        kk = len(passed)
        passed.append(b.get("max_rnd"))
        new = maxima[kk] if passed[-1] is None else max(maxima[kk], sp.sympify(passed[-1]))
        return np.array([sp.Symbol("e%d_%d" % (kk, j)) for j in range(int(b["N"]))], dtype=object), new

    def first(tr, d, args, kwargs, n):
        last = d.split(".")[-1]
        if last in ("random", "uniform", "rand", "random_sample"):
            shp = args[0] if args else kwargs.get("size", kwargs.get("shape"))
            m = int(shp[0]) if isinstance(shp, (tuple, list)) else int(shp)
            return np.array([pattern[j % len(pattern)] for j in range(m)], dtype=object)
        return NotImplemented

    def attribute(tr, obj, attr, n):
        if isinstance(obj, _Counter):
            if attr == "generate":
                return PyFunc(lambda N: [sp.Integer(x) for x in obj.sizes])
            if attr == "add_gen":
                return PyFunc(lambda v: (obj.log.append(("add", int(v))), setattr(obj, "n_gen", obj.n_gen + int(v)))[0])
            if attr == "set_gen":
                return PyFunc(lambda v: (obj.log.append(("set", int(v))), setattr(obj, "n_gen", int(v)))[0])
            if attr == "N_gen":
                return sp.Integer(obj.n_gen)
        raise Unmodelled("attribute %s of %r" % (attr, obj))

    hooks = {once.key: sampler, gt.key: lambda tr_, a_, k_, n_: counter, "numeric_call_first": first, "attribute": attribute, "concrete_zeros": True, "stack_as_array": True}
    tr = Translator(repo, hooks=hooks, max_depth=2)
    try:
        out = tr.call_fn(fn, ["F", "F_INTERP", sp.Integer(1000)])
    except Unmodelled as e:
        raise AnalysisError("interp_sample_f cannot be interpreted: %s" % e)
    got = list(np.asarray(out[0], dtype=object).reshape(-1)) if isinstance(out, tuple) else None
    if got is None:
        raise AnalysisError("interp_sample_f no longer returns (sample, interpolation, bound)")
    kept, old = [], None
    for k, new in enumerate(maxima):
        if old is None:
            old = new
        if new > old and kept:
            kept = [t for j, t in enumerate(kept) if pattern[j % len(pattern)] > 1 - old / new]
            old = new
        elif new > old:
            old = new
        kept = kept + [sp.Symbol("e%d_%d" % (k, j)) for j in range(sizes[k])]
    why = None
    if got != kept:
        why = "returns %d events %s..., thinning with keep <=> rnd > 1 - old/new gives %d events %s..." % (len(got), got[:6], len(kept), kept[:6])
    elif counter.n_gen != len(kept):
        why = "the progress counter ends at %d but %d events are held (counter log %s): the loop stops before the N events asked for are there" % (counter.n_gen, len(kept), counter.log)
    chk.oblige("M-interp", "interp_sample_f on four scripted batches: %d events, counter %d" % (len(got), counter.n_gen), why is None)
    if why:
        chk.violation("M-interp", fn.key, "counter", "interp_sample_f on four scripted batches: %s" % why, file=LIN, line=fn.lineno)


def check_grid_unravel(repo, chk, rule="M-unravel"):
    """InterpND / InterpNDHist.generate: the flat cell index drawn from the cumulative table (built from a C-order
    flatten()) is split into per-axis indices the way the table was flattened"""
    import ast

    import numpy as np
    import sympy as sp

    from ..model import AnalysisError, norm_text
    from ..sym import SelfObj, Translator, Unmodelled

    chk.rule(rule, "InterpND.generate and InterpNDHist.generate: the statements between the initialisation of the per-axis edge lists and their np.stack are interpreted for EVERY flat cell index of the grids 3x2, 2x3x4 and 2x2x3x2 (axes of different length): axis j gets the edges [x_j[i_j], x_j[i_j + 1]] with (i_0, .., i_{d-1}) = np.unravel_index(cell, shape) - the order in which the cumulative table int_step was flattened; a wrong stride is invisible for one and two axes")
    n_cls = 0
    for cname in ("InterpND", "InterpNDHist"):
        cls = repo.cls("tf_pwa/generator/interp_nd.py::" + cname)
        fn = cls.methods.get("generate")
        if fn is None:
            raise AnalysisError("anchor vanished: %s.generate" % cname)
        body = fn.node.body
        # slice: from the statement after the last `<edge list> = [None] * self.n_dim` to the first statement that
        # stacks an edge list
        starts = [i for i, st in enumerate(body) if isinstance(st, ast.Assign) and isinstance(st.value, ast.BinOp) and isinstance(st.value.left, ast.List) and "n_dim" in norm_text(st.value.right)]
        edge_names = [st.targets[0].id for i, st in enumerate(body) if i in starts and isinstance(st.targets[0], ast.Name)]
        ends = [i for i, st in enumerate(body) if isinstance(st, ast.Assign) and isinstance(st.value, ast.Call) and norm_text(st.value.func).split(".")[-1] in ("stack", "array", "concatenate") and any(isinstance(x, ast.Name) and x.id in edge_names for x in ast.walk(st.value))]
        if len(starts) < 2 or not ends or min(ends) <= max(starts):
            raise AnalysisError("%s.generate: the per-axis edge lists (`[None] * self.n_dim` ... np.stack) were not found" % cname)
        lo_name, hi_name = edge_names[0], edge_names[1]
        block = body[max(starts) + 1:min(ends)]
        # the name of the flat index: the local that the block reads and that is defined before it
        prefix = [st for i, st in enumerate(body[:max(starts) + 1]) if i not in starts]
        defined_before = {t.id for st in prefix for t in ast.walk(st) if isinstance(t, ast.Name) and isinstance(t.ctx, ast.Store)}
        read = [x.id for st in block for x in ast.walk(st) if isinstance(x, ast.Name) and isinstance(x.ctx, ast.Load)]
        # locals the prefix binds from the object alone (n_dim = self.n_dim) are interpreted; the flat index is the one
        # local the block reads that comes from the random draw (its definition is not interpretable here)
        probe_env = {"self": SelfObj(cls, {"n_dim": sp.Integer(2), "xs": [np.array([sp.Integer(0), sp.Integer(1)], dtype=object)] * 2, "n_bins": sp.Integer(1)})}
        from_object = set()
        for st in prefix:
            try:
                Translator(repo, hooks={"allow_shape": True}, max_depth=1).exec_stmt(st, probe_env, fn.mod, 0)
                from_object |= {t.id for t in ast.walk(st) if isinstance(t, ast.Name) and isinstance(t.ctx, ast.Store)}
            except Exception:
                pass
        idx_names = [nm for nm in dict.fromkeys(read) if nm in defined_before and nm not in from_object and nm not in (lo_name, hi_name, "self")]
        # a statement of the block that neither touches the edge lists nor the index (coeff = self.coeffs[p]) is not part of it
        core_names = (lo_name, hi_name)
        idx_names = [nm for nm in idx_names if any(isinstance(x, ast.Name) and x.id == nm for st in block if any(isinstance(y, ast.Name) and y.id in core_names for y in ast.walk(st)) for x in ast.walk(st))]
        if len(idx_names) != 1:
            raise AnalysisError("%s.generate: cannot tell which local carries the flat cell index into the unravelling block (candidates %s)" % (cname, idx_names))
        prefix_object = [st for st in prefix if {t.id for t in ast.walk(st) if isinstance(t, ast.Name) and isinstance(t.ctx, ast.Store)} <= from_object and from_object]
        bad = None
        n_cells = 0
        for shape in ((3, 2), (2, 3, 4), (2, 2, 3, 2)):
            d = len(shape)
            xs = [np.array([sp.Symbol("x%d_%d" % (j, k)) for k in range(shape[j] + 1)], dtype=object) for j in range(d)]
            for cell in range(int(np.prod(shape))):
                so = SelfObj(cls, {"n_dim": sp.Integer(d), "xs": list(xs), "n_bins": sp.Integer(int(np.prod(shape)))})
                env = {"self": so}
                tr = Translator(repo, hooks={"allow_shape": True, "allow_attr_store": True}, max_depth=1)
                for st in prefix_object:
                    try:
                        tr.exec_stmt(st, env, fn.mod, 0)
                    except Unmodelled:
                        pass
                env.update({idx_names[0]: sp.Integer(cell), lo_name: [None] * d, hi_name: [None] * d})
                try:
                    for st in block:
                        try:
                            tr.exec_stmt(st, env, fn.mod, 0)
                        except Unmodelled:
                            # a statement that touches neither the edge lists nor the index (coeff = self.coeffs[p]) is
                            # not part of the unravelling
                            if any(isinstance(x, ast.Name) and x.id in (lo_name, hi_name, idx_names[0]) for x in ast.walk(st)):
                                raise
                except Unmodelled as e:
                    raise AnalysisError("%s.generate: the unravelling block cannot be interpreted (%s)" % (cname, e))
                n_cells += 1
                want = np.unravel_index(cell, shape)
                got_lo, got_hi = env[lo_name], env[hi_name]
                exp_lo = [xs[j][want[j]] for j in range(d)]
                exp_hi = [xs[j][want[j] + 1] for j in range(d)]
                if list(got_lo) == exp_hi and list(got_hi) == exp_lo:
                    got_lo, got_hi = got_hi, got_lo   # the two lists were initialised in the other order: which is which is told by their contents
                if (list(got_lo) != exp_lo or list(got_hi) != exp_hi) and bad is None:
                    bad = "grid %s, flat cell %d = cell %s: the edges are %s .. %s, expected %s .. %s" % ("x".join(map(str, shape)), cell, tuple(int(w) for w in want), list(got_lo), list(got_hi), exp_lo, exp_hi)
        n_cls += 1
        chk.oblige(rule, "%s.generate unravels every flat cell index of three grids in C order (%d cells)" % (cname, n_cells), bad is None)
        if bad:
            chk.violation(rule, fn.key, "unravel", "%s.generate: %s - events are placed in other cells than the ones drawn from the cumulative table: the sample no longer follows the interpolated density (cells of zero integral get events)" % (cname, bad), file="tf_pwa/generator/interp_nd.py", line=fn.lineno)
    chk.require_count(rule, 2)
