"""C11 clause (c): one step of the helicity-angle round trip (E6).

create_rotate_p_decay (angles -> momenta) records, for each daughter of a two-body decay, the axes of
the daughter's helicity frame; cal_helicity_angle (momenta -> angles) derives that frame and the angles
with EulerAngle.angle_zx_z_getx.  For one decay step in the mother frame (z1, x1) = (e_z, e_x) and a
daughter momentum p (sin(theta) cos(phi), sin(theta) sin(phi), cos(theta)) this clause decides, as exact
identities (phi rationally parametrised, sin(theta) = sqrt(1 - cos(theta)^2) as in the code):
   extractor:  atan2 arguments of alpha are (sin phi, cos phi), of beta (sin theta, cos theta)
   frames:     the x axis the extractor derives from the daughter's momentum equals the x axis the builder
               records, the builder's z axis is the unit momentum, its triad is right-handed; for the second
               daughter (momentum -p) the extractor's frame equals the recorded [x, -y, -z]
Together with the boost identities of clause (b) the frames of builder and extractor coincide level by
level.  NOT decided: that cal_chain_boost hands each decay the momenta of the right rest frame
(data-dependent dictionary bookkeeping over the chain).
"""
import ast

import numpy as np
import sympy as sp

from ..model import AnalysisError, norm_text
from ..sym import Translator, Unmodelled, equal

ANG = "tf_pwa/angle.py::"
HEL = "tf_pwa/data_trans/helicity_angle.py::"


def _bind(names, args, kwargs, defaults=None):
    """positional/keyword binding for hook functions that stand in for repo callables"""
    out = list(args[: len(names)])
    for nm in names[len(out):]:
        if nm in kwargs:
            out.append(kwargs[nm])
        elif defaults and nm in defaults:
            out.append(defaults[nm])
        else:
            raise Unmodelled("argument %s missing in a hooked call" % nm)
    return out


def check_helicity_step(repo, chk, oblige):
    chk.rule("E6-helicity", "one decay step: angle_zx_z_getx recovers (phi, theta) from a momentum built with them, and the helicity frames recorded by create_rotate_p_decay for both daughters equal the frames the extractor derives")
    c = sp.Symbol("c", real=True)  # cos(theta), |c| < 1
    t = sp.Symbol("t", real=True)  # tan(phi/2)
    P = sp.Symbol("P", positive=True)
    s = sp.sqrt(1 - c ** 2)
    cphi, sphi = (1 - t ** 2) / (1 + t ** 2), 2 * t / (1 + t ** 2)
    PHI = sp.Symbol("PHI", real=True)

    def unit(a):
        a = np.asarray(a, dtype=object)
        return a / sp.sqrt(np.sum(a * a))

    # Vector3.cross_unit / unit under the non-degenerate assumption (vectors not collinear): unit(a x b), a/|a|
    def cross_unit_hook(tr, args, kwargs, n):
        a, b = [np.asarray(x, dtype=object).reshape(-1) for x in args[:2]]
        return unit(np.cross(a, b))

    def unit_hook(tr, args, kwargs, n):
        return unit(np.asarray(args[0], dtype=object).reshape(-1))

    def trig(kind):
        def f(tr, a):
            if a == PHI:
                return cphi if kind == "cos" else sphi
            return sp.cos(a) if kind == "cos" else sp.sin(a)
        return f

    hooks = {ANG + "Vector3.cross_unit": cross_unit_hook, ANG + "Vector3.unit": unit_hook, "stack_as_array": True,
             "unary:cos": trig("cos"), "unary:sin": trig("sin")}
    tr = Translator(repo, hooks=hooks, max_depth=6)
    ez = np.array([sp.Integer(0), sp.Integer(0), sp.Integer(1)], dtype=object)
    ex = np.array([sp.Integer(1), sp.Integer(0), sp.Integer(0)], dtype=object)
    ey = np.array([sp.Integer(0), sp.Integer(1), sp.Integer(0)], dtype=object)
    mom = np.array([P * s * cphi, P * s * sphi, P * c], dtype=object)

    # ---- extractor: capture the atan2 arguments instead of forming the angle
    captured = []

    def angle_from_hook(tr_, args, kwargs, n):
        v, x, y = [np.asarray(a, dtype=object).reshape(-1) for a in _bind(["self", "x", "y"], args, kwargs)]
        captured.append((np.sum(v * y), np.sum(v * x)))  # atan2(v.y, v.x)
        return sp.Symbol("ang%d" % len(captured))

    tr.hooks[ANG + "Vector3.angle_from"] = angle_from_hook
    W = ANG + "EulerAngle.angle_zx_z_getx"
    fn = repo.fn(W)
    # EulerAngle(...) constructor: keep the three angles
    tr.hooks[ANG.rstrip(":") + "::EulerAngle"] = lambda tr_, args, kwargs, n: dict(zip(("alpha", "beta", "gamma"), _bind(["alpha", "beta", "gamma"], args, kwargs, {"alpha": 0, "beta": 0, "gamma": 0})))
    try:
        res = tr.call_fn(fn, [ez, ex, mom])
    except Unmodelled as e:
        raise AnalysisError("angle_zx_z_getx is not a single-path kernel under the stated hooks: %s" % e)
    if not (isinstance(res, tuple) and len(res) == 2 and len(captured) == 2):
        raise AnalysisError("angle_zx_z_getx no longer returns (angles, x axis) from two angle_from calls")
    x_d1 = np.asarray(res[1], dtype=object).reshape(-1)
    (a_sin, a_cos), (b_sin, b_cos) = captured
    oblige("E6-helicity", "alpha = atan2(sin phi, cos phi): numerator", a_sin, sphi, W, "alpha-sin")
    oblige("E6-helicity", "alpha = atan2(sin phi, cos phi): denominator", a_cos, cphi, W, "alpha-cos")
    oblige("E6-helicity", "beta = atan2(sin theta, cos theta): numerator", b_sin, s, W, "beta-sin")
    oblige("E6-helicity", "beta = atan2(sin theta, cos theta): denominator", b_cos, c, W, "beta-cos")
    # x1 need not be perpendicular to z1 (cal_angle_from_particle passes base_z = top momentum with base_x = e_x):
    # only the half plane spanned by (z1, x1) matters
    k = sp.Symbol("k", real=True)
    captured.clear()
    res_k = tr.call_fn(fn, [ez, ex + k * ez, mom])
    (ak_sin, ak_cos), (bk_sin, bk_cos) = captured
    oblige("E6-helicity", "x1 with a z1 component: alpha unchanged (numerator)", ak_sin, sphi, W, "alpha-sin-oblique")
    oblige("E6-helicity", "x1 with a z1 component: alpha unchanged (denominator)", ak_cos, cphi, W, "alpha-cos-oblique")
    oblige("E6-helicity", "x1 with a z1 component: beta unchanged (numerator)", bk_sin, s, W, "beta-sin-oblique")
    oblige("E6-helicity", "x1 with a z1 component: beta unchanged (denominator)", bk_cos, c, W, "beta-cos-oblique")
    xk = np.asarray(res_k[1], dtype=object).reshape(-1)
    for i_, nm in enumerate("xyz"):
        oblige("E6-helicity", "x1 with a z1 component: derived x axis %s unchanged" % nm, xk[i_], x_d1[i_], W, "x2-oblique-%s" % nm)
    # second daughter: momentum -p
    captured.clear()
    res2 = tr.call_fn(fn, [ez, ex, -mom])
    x_d2 = np.asarray(res2[1], dtype=object).reshape(-1)
    (a2_sin, a2_cos), (b2_sin, b2_cos) = captured
    oblige("E6-helicity", "second daughter: alpha' = phi + pi (numerator)", a2_sin, -sphi, W, "alpha2-sin")
    oblige("E6-helicity", "second daughter: alpha' = phi + pi (denominator)", a2_cos, -cphi, W, "alpha2-cos")
    oblige("E6-helicity", "second daughter: beta' = pi - theta (numerator)", b2_sin, s, W, "beta2-sin")
    oblige("E6-helicity", "second daughter: beta' = pi - theta (denominator)", b2_cos, -c, W, "beta2-cos")

    # ---- builder: the statements of one loop iteration of create_rotate_p_decay
    B = HEL + "create_rotate_p_decay"
    bf = repo.fn(B)
    loops = [n for n in bf.node.body if isinstance(n, ast.For) and "depth_first" in norm_text(n.iter)]
    if not loops:
        raise AnalysisError("create_rotate_p_decay: loop over the decays not found")
    body = loops[0].body
    m1, m2 = sp.symbols("m1 m2", positive=True)
    from ..sym import SelfObj

    BETA = sp.Symbol("BETA", real=True)
    dec = SelfObj(None, {"core": "A", "outs": ["B", "C"]})
    env = {
        "axis_map": {"A": [ex.reshape(1, 3), ey.reshape(1, 3), ez.reshape(1, 3)]},
        "dec": dec,
        "mass": {"B": m1, "C": m2},
        "monmentum_in_rest": {},
        # the data dictionaries: |p|, and the helicity angles of the first daughter
        "data": {dec: {"|p|": P, "B": {"angle": {"alpha": PHI, "beta": BETA, "gamma": sp.Integer(0)}}}},
    }

    def trig2(kind):
        base = trig(kind)

        def f(tr_, a):
            if a == BETA:
                return c if kind == "cos" else s
            return base(tr_, a)
        return f

    tr2 = Translator(repo, hooks={"stack_as_array": True, "unary:cos": trig2("cos"), "unary:sin": trig2("sin")}, max_depth=6)
    for st in body:
        try:
            tr2.exec_stmt(st, env, bf.mod, 0)
        except Unmodelled as e:
            raise AnalysisError("create_rotate_p_decay: statement `%s` not modelled: %s" % (norm_text(st)[:60], e))
    am = env["axis_map"]
    if "B" not in am or "C" not in am:
        raise AnalysisError("create_rotate_p_decay no longer records the daughters' axes")
    bx1, by1, bz1 = [np.asarray(v, dtype=object).reshape(-1) for v in am["B"]]
    bx2, by2, bz2 = [np.asarray(v, dtype=object).reshape(-1) for v in am["C"]]
    p1 = np.asarray(env["monmentum_in_rest"]["B"], dtype=object).reshape(-1)
    p2 = np.asarray(env["monmentum_in_rest"]["C"], dtype=object).reshape(-1)
    for k, nm in enumerate("xyz"):
        oblige("E6-helicity", "builder: daughter-1 three-momentum %s == p (sin th cos ph, sin th sin ph, cos th)" % nm, p1[k + 1], mom[k], B, "p1-%s" % nm)
        oblige("E6-helicity", "builder: daughter-2 three-momentum %s == -p" % nm, p2[k + 1], -mom[k], B, "p2-%s" % nm)
        oblige("E6-helicity", "frame of daughter 1: z axis %s == unit momentum" % nm, bz1[k], mom[k] / P, B, "z1-%s" % nm)
        oblige("E6-helicity", "frame of daughter 1: recorded x axis %s == x axis derived by angle_zx_z_getx" % nm, bx1[k], x_d1[k], B, "x1-%s" % nm)
        oblige("E6-helicity", "frame of daughter 2: recorded z axis %s == unit(-p)" % nm, bz2[k], -mom[k] / P, B, "z2-%s" % nm)
        oblige("E6-helicity", "frame of daughter 2: recorded x axis %s == x axis derived by angle_zx_z_getx from -p" % nm, bx2[k], x_d2[k], B, "x2-%s" % nm)
    cr1 = np.cross(bz1, bx1)
    cr2 = np.cross(bz2, bx2)
    for k, nm in enumerate("xyz"):
        oblige("E6-helicity", "frame of daughter 1 right-handed: y_%s == (z x x)_%s" % (nm, nm), by1[k], cr1[k], B, "rh1-%s" % nm)
        oblige("E6-helicity", "frame of daughter 2 right-handed: y_%s == (z x x)_%s" % (nm, nm), by2[k], cr2[k], B, "rh2-%s" % nm)
    oblige("E6-helicity", "builder: E1^2 - p^2 == m1^2", p1[0] ** 2 - P ** 2, m1 ** 2, B, "shell-1")
    oblige("E6-helicity", "builder: E2^2 - p^2 == m2^2", p2[0] ** 2 - P ** 2, m2 ** 2, B, "shell-2")
    chk.assume("helicity step: mother frame taken as (e_x, e_y, e_z) (vector algebra is rotation covariant); daughter momentum not collinear with the mother's z axis (Vector3.cross_unit's degenerate branch is not taken); phi = 2 atan(t)")


# ---------------------------------------------------------------------------------------------
# clause (d): frame typing of the boosts in cal_chain_boost / cal_single_boost
# ---------------------------------------------------------------------------------------------
CAL = "tf_pwa/cal_angle.py::"
LV = "tf_pwa/angle.py::LorentzVector."


class _Inline(ast.NodeTransformer):
    def __init__(self, env):
        self.env, self.depth = env, 0

    def visit_Name(self, node):
        v = self.env.get(node.id)
        if isinstance(v, (ast.Subscript, ast.Name, ast.Attribute)) and self.depth < 8:
            self.depth += 1
            try:
                return self.visit(ast.parse(ast.unparse(v), mode="eval").body)
            finally:
                self.depth -= 1
        return node


def _frame_of(expr, env, depth=0):
    """frame type of a momentum expression: ('lab', table, particle) for data[X]["p"], ('rest', table, decay, particle)
    for part_data[D]["rest_p"][X]; local names are replaced by their reaching definitions first"""
    if env:
        expr = _Inline(env).visit(ast.parse(ast.unparse(expr), mode="eval").body)
    if isinstance(expr, ast.Subscript):
        key = expr.slice
        inner = expr.value
        if isinstance(key, ast.Constant) and key.value == "p" and isinstance(inner, ast.Subscript) and isinstance(inner.value, ast.Name):
            return ("lab", inner.value.id, norm_text(inner.slice))
        if isinstance(inner, ast.Subscript) and isinstance(inner.slice, ast.Constant) and inner.slice.value == "rest_p" and isinstance(inner.value, ast.Subscript):
            return ("rest", norm_text(inner.value.value), norm_text(inner.value.slice), norm_text(key))
    return None


class _FVec:
    """the four-momentum of `part` expressed in the frame reached from the lab by the boosts in `frame` (a tuple of
    particle names: () is the lab frame, ("A", "R") the rest frame of R reached through the rest frame of A)"""

    def __init__(self, part, frame):
        self.part, self.frame = part, tuple(frame)

    def __repr__(self):
        return "p(%s)@%s" % (self.part, "/".join(self.frame) or "lab")


_WORLDS = [
    # (top, [(core, outs), ...] in the order the chain lists them)
    ("A", [("A", ["R", "C"]), ("R", ["B", "D"])]),
    ("A", [("R", ["B", "D"]), ("A", ["R", "C"])]),
    ("A", [("A", ["R1", "R2"]), ("R1", ["B", "C"]), ("R2", ["D", "E"])]),
    ("A", [("S", ["D", "E"]), ("R", ["S", "C"]), ("A", ["R", "B"])]),
    ("A", [("A", ["B", "C", "D"])]),
]


def check_frame_typing(repo, chk):
    """cal_chain_boost / cal_single_boost interpreted on small decay chains with frame-typed momenta"""
    from ..sym import SelfObj
    chk.rule("T-frame", "cal_chain_boost / cal_single_boost interpreted on %d decay chains (up to three levels, decays listed in either order) with frame-typed momenta: every LorentzVector.rest_vector(p_rest, pj) takes both momenta from the same frame, p_rest is the decaying particle's momentum, the result is stored as rest_p[<that particle>] of that decay, and below the top decay cal_chain_boost reaches the rest frame through the chain of mother rest frames" % len(_WORLDS))
    rv = repo.fn(LV + "rest_vector")
    dcls = repo.cls("tf_pwa/particle.py::BaseDecay")
    ccls = repo.cls("tf_pwa/particle.py::DecayChain")
    n_sites = 0
    for key, chained in ((CAL + "cal_chain_boost", True), (CAL + "cal_single_boost", False)):
        fn = repo.fn(key)
        for top, decs in _WORLDS:
            problems = []
            calls = [0]

            def rest_vector(tr_, a_, k_, n_):
                names = rv.all_param_names()
                b = dict(zip(names, a_))
                b.update(k_)
                pr, pj = b.get(names[0]), b.get(names[1])
                calls[0] += 1
                if not isinstance(pr, _FVec) or not isinstance(pj, _FVec):
                    problems.append(("args", "rest_vector(%r, %r): the arguments are not momenta of the event" % (pr, pj), n_))
                    return pj
                if pr.frame != pj.frame:
                    problems.append(("mixed-frame:%s" % pj.part, "boost velocity %r but boosted momentum %r: the result is not the momentum in the rest frame of %s (intermediate boosts dropped)" % (pr, pj, pr.part), n_))
                return _FVec(pj.part, pr.frame + (pr.part,))

            decays = [SelfObj(dcls, {"core": c, "outs": list(o), "__str__": "%s->%s" % (c, "+".join(o))}) for c, o in decs]
            inner = [c for c, _ in decs if c != top]
            outs = [x for _, o in decs for x in o if x not in [c for c, _ in decs]]
            chain = SelfObj(ccls, {"chain": list(decays), "top": top, "inner": list(inner), "outs": list(outs)})
            data = {x: {"p": _FVec(x, ())} for x in [top] + inner + outs}
            tr = Translator(repo, hooks={rv.key: rest_vector}, max_depth=3)
            try:
                out = tr.call_fn(fn, [data, chain])
            except Unmodelled as e:
                raise AnalysisError("%s cannot be interpreted on the chain %s: %s" % (key, decs, e))
            n_sites += calls[0]
            path = {top: ()}
            for _ in decs:
                for c, o in decs:
                    if c in path:
                        for x in o:
                            path[x] = path[c] + (c,)
            if not isinstance(out, dict):
                raise AnalysisError("%s no longer returns the per-decay table" % key)
            for d, (c, o) in zip(decays, decs):
                ent = out.get(d)
                rp = ent.get("rest_p") if isinstance(ent, dict) else None
                if not isinstance(rp, dict):
                    problems.append(("store:%s" % c, "no rest_p table for the decay %s" % d.attrs["__str__"], None))
                    continue
                want_frame = (path[c] + (c,)) if chained else (c,)
                for x in o:
                    if x not in rp:
                        problems.append(("store:%s" % x, "rest_p of %s has no entry for its daughter %s" % (d.attrs["__str__"], x), None))
                for x, v in rp.items():
                    if not isinstance(v, _FVec) or v.part != x:
                        problems.append(("store:%s" % x, "rest_p[%s] of %s holds %r" % (x, d.attrs["__str__"], v), None))
                    elif v.frame[-1:] != (c,):
                        problems.append(("boost-velocity:%s" % x, "rest_p[%s] of %s is %r: boosted with the momentum of %s, not of the decaying particle %s" % (x, d.attrs["__str__"], v, v.frame[-1] if v.frame else "nothing", c), None))
                    elif v.frame != want_frame:
                        problems.append(("direct-boost:%s" % x, "rest_p[%s] of %s is %r, expected the frame %s: the chained boosts are replaced (Wigner rotation lost, helicity angles change for a moving parent)" % (x, d.attrs["__str__"], v, "/".join(want_frame)), None))
            label = "%s on %s" % (key.split("::")[1], " ; ".join("%s->%s" % (c, "+".join(o)) for c, o in decs))
            chk.oblige("T-frame", "%s: %d boosts, all frame-consistent, stored per decay and daughter, frame = %s" % (label, calls[0], "chain of mother rest frames" if chained else "rest frame of the decaying particle"), not problems)
            seen = set()
            for construct, msg, node in problems:
                if construct in seen:
                    continue
                seen.add(construct)
                chk.violation("T-frame", key, construct, "%s: %s" % (label, msg), file=fn.mod.rel, line=getattr(node, "lineno", fn.lineno))
    chk.require_count("T-frame", 10)
    chk.info("T-frame: %d rest_vector calls interpreted" % n_sites)
    # which builder feeds the helicity angles: the chained one.  The single-boost variant reaches every rest frame
    # directly from the input frame, which differs from the chain of boosts by a Wigner rotation for a moving parent
    import ast as _ast
    users = []
    for rel_, m_ in sorted(repo.mods.items()):
        if "/tests/" in rel_:
            continue
        for f_ in m_.funcs.values():
            for c_ in _ast.walk(f_.node):
                if isinstance(c_, _ast.Call) and norm_text(c_.func).split(".")[-1] == "cal_single_boost":
                    users.append((f_, c_))
    ha = repo.fn(CAL + "cal_helicity_angle")
    # only a use on the way to the helicity angles counts: cal_helicity_angle and whatever it calls (by name, in its
    # own module).  A caller elsewhere (a plotting helper, a cross-check utility) is reported as INFO only
    closure, todo = {ha.key}, [ha]
    while todo:
        g_ = todo.pop()
        for c_ in _ast.walk(g_.node):
            if isinstance(c_, _ast.Call) and isinstance(c_.func, _ast.Name) and c_.func.id in g_.mod.funcs and c_.func.id != "cal_single_boost":
                h_ = g_.mod.funcs[c_.func.id]
                if h_.key not in closure:
                    closure.add(h_.key)
                    todo.append(h_)
    for f_, c_ in users:
        if f_.key not in closure:
            chk.info("T-frame: %s calls cal_single_boost outside the helicity-angle computation (not judged)" % f_.key)
    users = [(f_, c_) for f_, c_ in users if f_.key in closure]
    # (the call may sit in a helper of cal_helicity_angle)
    chained = [c_ for k_ in sorted(closure) for c_ in _ast.walk(repo.fn(k_).node) if isinstance(c_, _ast.Call) and norm_text(c_.func).split(".")[-1] == "cal_chain_boost"]
    ok_use = bool(chained) and not users
    chk.oblige("T-frame", "cal_helicity_angle takes its rest-frame momenta from cal_chain_boost (%d call); cal_single_boost is used %d times on the way to the helicity angles" % (len(chained), len(users)), ok_use)
    for f_, c_ in users[:2]:
        chk.violation("T-frame", f_.key, "single-boost-used", "%s calls cal_single_boost: momenta boosted straight from the input frame differ from the chained rest frames by a Wigner rotation whenever the parent moves, so helicity angles of J >= 1 resonances change with the observer's frame" % f_.key, file=f_.mod.rel, line=c_.lineno)
    if not chained and not users:
        raise AnalysisError("cal_helicity_angle no longer calls cal_chain_boost: the source of its rest-frame momenta is not recognised")
