"""C11 clause (c): one step of the helicity-angle round trip (E6).

create_rotate_p_decay (angles -> momenta) records, for each daughter of a two-body decay, the axes of
the daughter's helicity frame; cal_helicity_angle (momenta -> angles) derives that frame and the angles
with EulerAngle.angle_zx_z_getx.  For one decay step in the mother frame (z1, x1) = (e_z, e_x) and a
daughter momentum p (sin(theta) cos(phi), sin(theta) sin(phi), cos(theta)) this clause decides, as exact
identities (phi rationally parametrised, sin(theta) = sqrt(1 - cos(theta)^2) as in the code):
   extractor:  atan2 arguments of alpha are (sin phi, cos phi), of beta (sin theta, cos theta)
   frames:     the x axis the extractor derives from the daughter's momentum equals the x axis the builder
               records, the builder's z axis is the unit momentum, its triad is right-handed; for the second
               daughter (momentum -p) the extractor's frame equals the recorded [x, -y, -z]
Together with the boost identities of clause (b) the frames of builder and extractor coincide level by
level.  NOT decided: that cal_chain_boost hands each decay the momenta of the right rest frame
(data-dependent dictionary bookkeeping over the chain).
"""
import ast

import numpy as np
import sympy as sp

from ..model import AnalysisError, norm_text
from ..sym import Translator, Unmodelled, equal

ANG = "tf_pwa/angle.py::"
HEL = "tf_pwa/data_trans/helicity_angle.py::"


def _bind(names, args, kwargs, defaults=None):
    """positional/keyword binding for hook functions that stand in for repo callables"""
    out = list(args[: len(names)])
    for nm in names[len(out):]:
        if nm in kwargs:
            out.append(kwargs[nm])
        elif defaults and nm in defaults:
            out.append(defaults[nm])
        else:
            raise Unmodelled("argument %s missing in a hooked call" % nm)
    return out


def check_helicity_step(repo, chk, oblige):
    chk.rule("E6-helicity", "one decay step: angle_zx_z_getx recovers (phi, theta) from a momentum built with them, and the helicity frames recorded by create_rotate_p_decay for both daughters equal the frames the extractor derives")
    c = sp.Symbol("c", real=True)  # cos(theta), |c| < 1
    t = sp.Symbol("t", real=True)  # tan(phi/2)
    P = sp.Symbol("P", positive=True)
    s = sp.sqrt(1 - c ** 2)
    cphi, sphi = (1 - t ** 2) / (1 + t ** 2), 2 * t / (1 + t ** 2)
    PHI = sp.Symbol("PHI", real=True)

    def unit(a):
        a = np.asarray(a, dtype=object)
        return a / sp.sqrt(np.sum(a * a))

    # Vector3.cross_unit / unit under the non-degenerate assumption (vectors not collinear): unit(a x b), a/|a|
    def cross_unit_hook(tr, args, kwargs, n):
        a, b = [np.asarray(x, dtype=object).reshape(-1) for x in args[:2]]
        return unit(np.cross(a, b))

    def unit_hook(tr, args, kwargs, n):
        return unit(np.asarray(args[0], dtype=object).reshape(-1))

    def trig(kind):
        def f(tr, a):
            if a == PHI:
                return cphi if kind == "cos" else sphi
            return sp.cos(a) if kind == "cos" else sp.sin(a)
        return f

    hooks = {ANG + "Vector3.cross_unit": cross_unit_hook, ANG + "Vector3.unit": unit_hook, "stack_as_array": True,
             "unary:cos": trig("cos"), "unary:sin": trig("sin")}
    tr = Translator(repo, hooks=hooks, max_depth=6)
    ez = np.array([sp.Integer(0), sp.Integer(0), sp.Integer(1)], dtype=object)
    ex = np.array([sp.Integer(1), sp.Integer(0), sp.Integer(0)], dtype=object)
    ey = np.array([sp.Integer(0), sp.Integer(1), sp.Integer(0)], dtype=object)
    mom = np.array([P * s * cphi, P * s * sphi, P * c], dtype=object)

    # ---- extractor: capture the atan2 arguments instead of forming the angle
    captured = []

    def angle_from_hook(tr_, args, kwargs, n):
        v, x, y = [np.asarray(a, dtype=object).reshape(-1) for a in _bind(["self", "x", "y"], args, kwargs)]
        captured.append((np.sum(v * y), np.sum(v * x)))  # atan2(v.y, v.x)
        return sp.Symbol("ang%d" % len(captured))

    tr.hooks[ANG + "Vector3.angle_from"] = angle_from_hook
    W = ANG + "EulerAngle.angle_zx_z_getx"
    fn = repo.fn(W)
    # EulerAngle(...) constructor: keep the three angles
    tr.hooks[ANG.rstrip(":") + "::EulerAngle"] = lambda tr_, args, kwargs, n: dict(zip(("alpha", "beta", "gamma"), _bind(["alpha", "beta", "gamma"], args, kwargs, {"alpha": 0, "beta": 0, "gamma": 0})))
    try:
        res = tr.call_fn(fn, [ez, ex, mom])
    except Unmodelled as e:
        raise AnalysisError("angle_zx_z_getx is not a single-path kernel under the stated hooks: %s" % e)
    if not (isinstance(res, tuple) and len(res) == 2 and len(captured) == 2):
        raise AnalysisError("angle_zx_z_getx no longer returns (angles, x axis) from two angle_from calls")
    x_d1 = np.asarray(res[1], dtype=object).reshape(-1)
    (a_sin, a_cos), (b_sin, b_cos) = captured
    oblige("E6-helicity", "alpha = atan2(sin phi, cos phi): numerator", a_sin, sphi, W, "alpha-sin")
    oblige("E6-helicity", "alpha = atan2(sin phi, cos phi): denominator", a_cos, cphi, W, "alpha-cos")
    oblige("E6-helicity", "beta = atan2(sin theta, cos theta): numerator", b_sin, s, W, "beta-sin")
    oblige("E6-helicity", "beta = atan2(sin theta, cos theta): denominator", b_cos, c, W, "beta-cos")
    # x1 need not be perpendicular to z1 (cal_angle_from_particle passes base_z = top momentum with base_x = e_x):
    # only the half plane spanned by (z1, x1) matters
    k = sp.Symbol("k", real=True)
    captured.clear()
    res_k = tr.call_fn(fn, [ez, ex + k * ez, mom])
    (ak_sin, ak_cos), (bk_sin, bk_cos) = captured
    oblige("E6-helicity", "x1 with a z1 component: alpha unchanged (numerator)", ak_sin, sphi, W, "alpha-sin-oblique")
    oblige("E6-helicity", "x1 with a z1 component: alpha unchanged (denominator)", ak_cos, cphi, W, "alpha-cos-oblique")
    oblige("E6-helicity", "x1 with a z1 component: beta unchanged (numerator)", bk_sin, s, W, "beta-sin-oblique")
    oblige("E6-helicity", "x1 with a z1 component: beta unchanged (denominator)", bk_cos, c, W, "beta-cos-oblique")
    xk = np.asarray(res_k[1], dtype=object).reshape(-1)
    for i_, nm in enumerate("xyz"):
        oblige("E6-helicity", "x1 with a z1 component: derived x axis %s unchanged" % nm, xk[i_], x_d1[i_], W, "x2-oblique-%s" % nm)
    # second daughter: momentum -p
    captured.clear()
    res2 = tr.call_fn(fn, [ez, ex, -mom])
    x_d2 = np.asarray(res2[1], dtype=object).reshape(-1)
    (a2_sin, a2_cos), (b2_sin, b2_cos) = captured
    oblige("E6-helicity", "second daughter: alpha' = phi + pi (numerator)", a2_sin, -sphi, W, "alpha2-sin")
    oblige("E6-helicity", "second daughter: alpha' = phi + pi (denominator)", a2_cos, -cphi, W, "alpha2-cos")
    oblige("E6-helicity", "second daughter: beta' = pi - theta (numerator)", b2_sin, s, W, "beta2-sin")
    oblige("E6-helicity", "second daughter: beta' = pi - theta (denominator)", b2_cos, -c, W, "beta2-cos")

    # ---- builder: the statements of one loop iteration of create_rotate_p_decay
    B = HEL + "create_rotate_p_decay"
    bf = repo.fn(B)
    loops = [n for n in bf.node.body if isinstance(n, ast.For) and "depth_first" in norm_text(n.iter)]
    if not loops:
        raise AnalysisError("create_rotate_p_decay: loop over the decays not found")
    body = loops[0].body
    m1, m2 = sp.symbols("m1 m2", positive=True)
    from ..sym import SelfObj

    BETA = sp.Symbol("BETA", real=True)
    dec = SelfObj(None, {"core": "A", "outs": ["B", "C"]})
    env = {
        "axis_map": {"A": [ex.reshape(1, 3), ey.reshape(1, 3), ez.reshape(1, 3)]},
        "dec": dec,
        "mass": {"B": m1, "C": m2},
        "monmentum_in_rest": {},
        # the data dictionaries: |p|, and the helicity angles of the first daughter
        "data": {dec: {"|p|": P, "B": {"angle": {"alpha": PHI, "beta": BETA, "gamma": sp.Integer(0)}}}},
    }

    def trig2(kind):
        base = trig(kind)

        def f(tr_, a):
            if a == BETA:
                return c if kind == "cos" else s
            return base(tr_, a)
        return f

    tr2 = Translator(repo, hooks={"stack_as_array": True, "unary:cos": trig2("cos"), "unary:sin": trig2("sin")}, max_depth=6)
    for st in body:
        try:
            tr2.exec_stmt(st, env, bf.mod, 0)
        except Unmodelled as e:
            raise AnalysisError("create_rotate_p_decay: statement `%s` not modelled: %s" % (norm_text(st)[:60], e))
    am = env["axis_map"]
    if "B" not in am or "C" not in am:
        raise AnalysisError("create_rotate_p_decay no longer records the daughters' axes")
    bx1, by1, bz1 = [np.asarray(v, dtype=object).reshape(-1) for v in am["B"]]
    bx2, by2, bz2 = [np.asarray(v, dtype=object).reshape(-1) for v in am["C"]]
    p1 = np.asarray(env["monmentum_in_rest"]["B"], dtype=object).reshape(-1)
    p2 = np.asarray(env["monmentum_in_rest"]["C"], dtype=object).reshape(-1)
    for k, nm in enumerate("xyz"):
        oblige("E6-helicity", "builder: daughter-1 three-momentum %s == p (sin th cos ph, sin th sin ph, cos th)" % nm, p1[k + 1], mom[k], B, "p1-%s" % nm)
        oblige("E6-helicity", "builder: daughter-2 three-momentum %s == -p" % nm, p2[k + 1], -mom[k], B, "p2-%s" % nm)
        oblige("E6-helicity", "frame of daughter 1: z axis %s == unit momentum" % nm, bz1[k], mom[k] / P, B, "z1-%s" % nm)
        oblige("E6-helicity", "frame of daughter 1: recorded x axis %s == x axis derived by angle_zx_z_getx" % nm, bx1[k], x_d1[k], B, "x1-%s" % nm)
        oblige("E6-helicity", "frame of daughter 2: recorded z axis %s == unit(-p)" % nm, bz2[k], -mom[k] / P, B, "z2-%s" % nm)
        oblige("E6-helicity", "frame of daughter 2: recorded x axis %s == x axis derived by angle_zx_z_getx from -p" % nm, bx2[k], x_d2[k], B, "x2-%s" % nm)
    cr1 = np.cross(bz1, bx1)
    cr2 = np.cross(bz2, bx2)
    for k, nm in enumerate("xyz"):
        oblige("E6-helicity", "frame of daughter 1 right-handed: y_%s == (z x x)_%s" % (nm, nm), by1[k], cr1[k], B, "rh1-%s" % nm)
        oblige("E6-helicity", "frame of daughter 2 right-handed: y_%s == (z x x)_%s" % (nm, nm), by2[k], cr2[k], B, "rh2-%s" % nm)
    oblige("E6-helicity", "builder: E1^2 - p^2 == m1^2", p1[0] ** 2 - P ** 2, m1 ** 2, B, "shell-1")
    oblige("E6-helicity", "builder: E2^2 - p^2 == m2^2", p2[0] ** 2 - P ** 2, m2 ** 2, B, "shell-2")
    chk.assume("helicity step: mother frame taken as (e_x, e_y, e_z) (vector algebra is rotation covariant); daughter momentum not collinear with the mother's z axis (Vector3.cross_unit's degenerate branch is not taken); phi = 2 atan(t)")


# ---------------------------------------------------------------------------------------------
# clause (d): frame typing of the boosts in cal_chain_boost / cal_single_boost
# ---------------------------------------------------------------------------------------------
CAL = "tf_pwa/cal_angle.py::"


class _Inline(ast.NodeTransformer):
    def __init__(self, env):
        self.env, self.depth = env, 0

    def visit_Name(self, node):
        v = self.env.get(node.id)
        if isinstance(v, (ast.Subscript, ast.Name, ast.Attribute)) and self.depth < 8:
            self.depth += 1
            try:
                return self.visit(ast.parse(ast.unparse(v), mode="eval").body)
            finally:
                self.depth -= 1
        return node


def _frame_of(expr, env, depth=0):
    """frame type of a momentum expression: ('lab', table, particle) for data[X]["p"], ('rest', table, decay, particle)
    for part_data[D]["rest_p"][X]; local names are replaced by their reaching definitions first"""
    if env:
        expr = _Inline(env).visit(ast.parse(ast.unparse(expr), mode="eval").body)
    if isinstance(expr, ast.Subscript):
        key = expr.slice
        inner = expr.value
        if isinstance(key, ast.Constant) and key.value == "p" and isinstance(inner, ast.Subscript) and isinstance(inner.value, ast.Name):
            return ("lab", inner.value.id, norm_text(inner.slice))
        if isinstance(inner, ast.Subscript) and isinstance(inner.slice, ast.Constant) and inner.slice.value == "rest_p" and isinstance(inner.value, ast.Subscript):
            return ("rest", norm_text(inner.value.value), norm_text(inner.value.slice), norm_text(key))
    return None


def check_frame_typing(repo, chk):
    chk.rule("T-frame", "every LorentzVector.rest_vector(p_rest, pj) in the chain-boost builders takes both momenta from the same frame (both lab `data[.][\"p\"]` or both `part_data[D][\"rest_p\"][.]` of the same decay D), p_rest is the decaying particle's momentum, and the result is stored as the rest-frame momentum of that decay")
    n_sites = 0
    for key in (CAL + "cal_chain_boost", CAL + "cal_single_boost"):
        fn = repo.fn(key)

        def is_rv(c):
            return isinstance(c, ast.Call) and norm_text(c.func).endswith("rest_vector") and len(c.args) + len(c.keywords) == 2

        ctx = ["any"]  # "top" / "nontop" branch of cal_chain_boost

        def typed(call, env, cur_decay, st):
            """frame check of one rest_vector call; returns (fa, fb)"""
            nonlocal n_sites
            n_sites += 1
            a0, a1 = (list(call.args) + [k.value for k in call.keywords])[:2]
            fa, fb = _frame_of(a0, env), _frame_of(a1, env)
            if fa is None or fb is None:
                raise AnalysisError("%s:%d the frame of `%s` / `%s` is not recognisable (neither data[.][\"p\"] nor part_data[.][\"rest_p\"][.])" % (fn.mod.rel, st.lineno, norm_text(a0), norm_text(a1)))
            site = "%s@%s" % (norm_text(_Inline(env).visit(ast.parse(ast.unparse(a1), mode="eval").body)), cur_decay or "?")
            ok = fa[0] == fb[0] and (fa[0] == "lab" and fa[1] == fb[1] or fa[0] == "rest" and fa[1:3] == fb[1:3])
            chk.oblige("T-frame", "%s:%d rest_vector(%s, %s): frames %s / %s agree" % (fn.mod.rel, st.lineno, norm_text(a0), norm_text(a1), fa[:-1], fb[:-1]), ok)
            if not ok:
                chk.violation("T-frame", key, "mixed-frame:" + site, "boost velocity taken from %s but the boosted momentum from %s: the result is not the momentum in the decaying particle's rest frame (intermediate boosts dropped)" % (fa, fb), file=fn.mod.rel, line=st.lineno)
            if ok and ctx[0] == "nontop" and cur_decay is not None:
                # below the top decay the momenta must be taken in the rest frame of the decay that produced the mother
                # (chained boosts); a direct boost from the lab frame differs by a Wigner rotation
                chained = fa[0] == "rest" and fa[2].replace(" ", "") == "core_decay_map[%s.core]" % cur_decay
                chk.oblige("T-frame", "%s:%d non-top decay: momenta taken in the rest frame of the decay that produced %s.core" % (fn.mod.rel, st.lineno, cur_decay), chained)
                if not chained:
                    chk.violation("T-frame", key, "direct-boost:" + site, "below the top decay the boost starts from %s instead of the rest frame of the decay that produced %s.core: the chained boosts are replaced by a direct boost (Wigner rotation lost, helicity angles change for a moving parent)" % (fa[:3], cur_decay), file=fn.mod.rel, line=st.lineno)
            if ok and cur_decay is not None:
                part = fa[-1]
                if part != cur_decay + ".core":
                    chk.violation("T-frame", key, "boost-velocity:" + site, "boost velocity is the momentum of %s, not of the decaying particle %s.core" % (part, cur_decay), file=fn.mod.rel, line=st.lineno)
                chk.oblige("T-frame", "%s:%d boost velocity is the momentum of %s.core" % (fn.mod.rel, st.lineno, cur_decay), part == cur_decay + ".core")
            return fa, fb

        def stored(tgt_frame, fb, cur_decay, st, text):
            ok = fb is not None and tgt_frame[2] == (cur_decay or tgt_frame[2]) and tgt_frame[3] == fb[-1]
            chk.oblige("T-frame", "%s:%d stored as rest_p[%s] of decay %s" % (fn.mod.rel, st.lineno, tgt_frame[3], tgt_frame[2]), ok)
            if not ok:
                chk.violation("T-frame", key, "store:%s" % text, "the boosted momentum of %s is stored under %s" % (fb and fb[-1], text), file=fn.mod.rel, line=st.lineno)

        def walk(stmts, env, cur_decay):
            for st in stmts:
                if isinstance(st, (ast.For, ast.While, ast.If, ast.With, ast.Try)):
                    if isinstance(st, ast.For):
                        d = cur_decay
                        if isinstance(st.target, ast.Name) and norm_text(st.iter) in ("decay_set", "decay_chain"):
                            d = st.target.id
                        walk(st.body, dict(env), d)
                    elif isinstance(st, ast.If):
                        t = norm_text(st.test).replace(" ", "")
                        saved = ctx[0]
                        if t.endswith("==decay_chain.top") or t.startswith("decay_chain.top=="):
                            ctx[0] = "top"
                            walk(st.body, dict(env), cur_decay)
                            ctx[0] = "nontop"
                            walk(st.orelse, dict(env), cur_decay)
                        elif t.endswith("incore_decay_map"):
                            ctx[0] = "nontop"
                            walk(st.body, dict(env), cur_decay)
                            ctx[0] = saved
                            walk(st.orelse, dict(env), cur_decay)
                        else:
                            walk(st.body, dict(env), cur_decay)
                            walk(st.orelse, dict(env), cur_decay)
                        ctx[0] = saved
                    else:
                        walk(st.body, dict(env) if isinstance(st, ast.While) else env, cur_decay)
                    continue
                calls = [c for c in ast.walk(st) if is_rv(c)]
                if isinstance(st, ast.Assign) and len(st.targets) == 1:
                    tgt, val = st.targets[0], st.value
                    if isinstance(tgt, ast.Name):
                        if is_rv(val):
                            fa, fb = typed(val, env, cur_decay, st)
                            env[tgt.id] = ("RESULT", fa, fb)
                        elif isinstance(val, ast.DictComp) and is_rv(val.value):
                            # rest_p = {j: rest_vector(p_rest, <momentum of j>) for j in ...}
                            fa, fb = typed(val.value, env, cur_decay, st)
                            env[tgt.id] = ("RESULTMAP", fa, fb, norm_text(val.key))
                        elif calls:
                            raise AnalysisError("%s:%d rest_vector inside `%s`: store of the result not recognised" % (fn.mod.rel, st.lineno, norm_text(st)[:60]))
                        else:
                            env[tgt.id] = val
                        continue
                    if isinstance(tgt, ast.Subscript):
                        tf_ = _frame_of(tgt, {})
                        if is_rv(val) and tf_ and tf_[0] == "rest":
                            fa, fb = typed(val, env, cur_decay, st)
                            stored(tf_, fb, cur_decay, st, norm_text(tgt))
                            continue
                        if isinstance(val, ast.Name) and isinstance(env.get(val.id), tuple) and tf_ and tf_[0] == "rest":
                            stored(tf_, env[val.id][2], cur_decay, st, norm_text(tgt))
                            continue
                        # part_data[D] = {"rest_p": <map built above>}
                        if isinstance(val, ast.Dict) and isinstance(tgt.value, ast.Name):
                            hit = False
                            for k_, v_ in zip(val.keys, val.values):
                                if isinstance(k_, ast.Constant) and k_.value == "rest_p" and isinstance(v_, ast.Name) and isinstance(env.get(v_.id), tuple) and env[v_.id][0] == "RESULTMAP":
                                    _, fa, fb, keytext = env[v_.id]
                                    stored(("rest", tgt.value.id, norm_text(tgt.slice), keytext), fb, cur_decay, st, norm_text(tgt) + "['rest_p'][" + keytext + "]")
                                    hit = True
                            if hit:
                                continue
                        # part_data[D]["rest_p"] = {j: rest_vector(p_rest, <momentum of j>) for j in ...}
                        if isinstance(val, ast.DictComp) and is_rv(val.value) and isinstance(tgt.slice, ast.Constant) and tgt.slice.value == "rest_p" and isinstance(tgt.value, ast.Subscript):
                            fa, fb = typed(val.value, env, cur_decay, st)
                            stored(("rest", norm_text(tgt.value.value), norm_text(tgt.value.slice), norm_text(val.key)), fb, cur_decay, st, norm_text(tgt) + "[" + norm_text(val.key) + "]")
                            continue
                if calls:
                    raise AnalysisError("%s:%d rest_vector inside `%s`: store of the result not recognised" % (fn.mod.rel, st.lineno, norm_text(st)[:60]))

        walk(fn.node.body, {}, None)
    chk.require_count("T-frame", 10)
