"""C18 semantic layer (K-sem): the structural recursions of the event-data helpers, interpreted on one nested datum.

The helpers touch their data only through `isinstance` dispatch on dict / list / tuple, iteration, and one leaf action.
So their behaviour on *every* nested structure is determined by how they treat each container kind and the leaves; the
checker's evaluator interprets each helper on a datum that contains every kind at depth two

        D = {"a": L1, "b": [L2, (L3, L4)], "c": {"d": L5}, "e": (L6,)}        (L_i symbolic leaves)

with the leaf action replaced by an uninterpreted function, and compares the result with the specification of the
helper.  This decides container-kind exhaustiveness, complete iteration, option forwarding in the recursion and the
partner relations independently of how the code spells them (temporaries, closures, delegation to another helper,
module constants, comprehension vs loop); a helper for which the interpretation succeeds is decided here and the
syntactic rules K1-K3/K5 are not applied to it.
"""
import ast

import sympy as sp

from ..model import AnalysisError, norm_text
from ..sym import PyFunc, PySet, SelfObj, Translator, Unmodelled

DATA = "tf_pwa/data.py"
CORE = "tf_pwa/amp/core.py"
WRAP = "tf_pwa/experimental/wrap_function.py"


class Leaf:
    """an event-data leaf (tensor): opaque, with a shape"""

    def __init__(self, name):
        self.name = name

    def __repr__(self):
        return self.name

    def __eq__(self, other):
        return isinstance(other, Leaf) and other.name == self.name

    def __hash__(self):
        return hash(self.name)


class Act:
    """result of a leaf action: (action, arguments)"""

    def __init__(self, what, *args, **kw):
        self.what, self.args, self.kw = what, args, tuple(sorted(kw.items()))

    def __repr__(self):
        return "%s(%s%s)" % (self.what, ", ".join(map(repr, self.args)), "".join(", %s=%r" % x for x in self.kw))

    def __eq__(self, other):
        return isinstance(other, Act) and (self.what, self.args, self.kw) == (other.what, other.args, other.kw)

    def __hash__(self):
        return hash((self.what, self.args, self.kw))


def smap(f, d):
    """specification helper: apply f to every leaf of a dict/list/tuple structure"""
    if isinstance(d, dict):
        return {k: smap(f, v) for k, v in d.items()}
    if isinstance(d, list):
        return [smap(f, v) for v in d]
    if isinstance(d, tuple):
        return tuple(smap(f, v) for v in d)
    return f(d)


def datum(prefix="L"):
    """dict keys deliberately not in sorted insertion order; containers of length 4 so that truncating views show"""
    L = [Leaf("%s%d" % (prefix, i)) for i in range(16)]
    return {"b": [L[1], (L[2], L[3], L[4], L[5]), L[6], L[7]], "a": L[8], "e": (L[9], L[10], L[11], L[12]), "c": {"z": L[13], "d": L[14]}}


def spec_flatten(d, join):
    """flatten_dict_data: one entry per leaf keyed by the joined path (insertion order)"""
    if not isinstance(d, (dict, list, tuple)):
        return d
    out = {}
    for i, v in (d.items() if isinstance(d, dict) else enumerate(d)):
        i = i if isinstance(d, dict) else sp.Integer(i)
        t = spec_flatten(v, join)
        if isinstance(t, dict):
            for j, w in t.items():
                out[join(i, j)] = w
        else:
            out[i] = t
    return out


def spec_leaves_sorted(d):
    if isinstance(d, dict):
        return [x for k in sorted(d) for x in spec_leaves_sorted(d[k])]
    if isinstance(d, (list, tuple)):
        return [x for v in d for x in spec_leaves_sorted(v)]
    return [d]


def spec_strip(d, keys):
    if isinstance(d, dict):
        return {k: spec_strip(v, keys) for k, v in d.items() if k not in keys}
    if isinstance(d, list):
        return [spec_strip(v, keys) for v in d]
    if isinstance(d, tuple):
        return tuple(spec_strip(v, keys) for v in d)
    return d


def spec_rename(d, m):
    if isinstance(d, dict):
        return {m.get(k, k): spec_rename(v, m) for k, v in d.items()}
    if isinstance(d, list):
        return [spec_rename(v, m) for v in d]
    if isinstance(d, tuple):
        return tuple(spec_rename(v, m) for v in d)
    return d


def key_order(d):
    """nested listing of dict key orders (dict equality ignores order)"""
    if isinstance(d, dict):
        return [(k, key_order(v)) for k, v in d.items()]
    if isinstance(d, (list, tuple)):
        return [key_order(v) for v in d]
    return None


def spec_nest(d, it):
    if isinstance(d, dict):
        return {k: spec_nest(v, it) for k, v in d.items()}
    if isinstance(d, list):
        return [spec_nest(v, it) for v in d]
    if isinstance(d, tuple):
        return tuple(spec_nest(v, it) for v in d)
    return next(it)


def zip_struct(f, a, b):
    if isinstance(a, dict):
        return {k: zip_struct(f, a[k], b[k]) for k in a}
    if isinstance(a, list):
        return [zip_struct(f, x, y) for x, y in zip(a, b)]
    if isinstance(a, tuple):
        return tuple(zip_struct(f, x, y) for x, y in zip(a, b))
    return f(a, b)


def make_translator(repo, extra=None):
    def isinst(tr, args, kwargs, n):
        kinds_ast = n.args[1]
        # a module-level constant naming the kinds is looked through
        names = [norm_text(e) for e in (kinds_ast.elts if isinstance(kinds_ast, ast.Tuple) else [kinds_ast])]
        v = args[0]
        table = {"dict": dict, "list": list, "tuple": tuple, "str": str}
        out = False
        for nm in names:
            base = nm.split(".")[-1]
            if base in table and isinstance(v, table[base]) and not isinstance(v, PySet):
                out = True
            if base in ("Tensor", "ndarray", "TensorSpec") and isinstance(v, (Leaf, Act)):
                if base == "TensorSpec":
                    out = out or (isinstance(v, Act) and v.what == "TensorSpec")
                else:
                    out = out or isinstance(v, Leaf)
            if base == "_LEAF_TYPES" or base.isupper():
                # named tuple of leaf classes: resolved below
                pass
        if not out and isinstance(args[1], (tuple, list)):
            # the second argument evaluated (a named constant): classes are opaque values named by their dotted path
            for k in args[1]:
                nm = getattr(k, "name", "")
                base = str(nm).split(".")[-1]
                if base in table and isinstance(v, table[base]):
                    out = True
                if base in ("Tensor", "ndarray") and isinstance(v, Leaf):
                    out = True
                if base == "TensorSpec" and isinstance(v, Act) and v.what == "TensorSpec":
                    out = True
        return out

    def numeric(tr, d, args, kwargs, n):
        last = d.split(".")[-1]
        if last == "concat":
            return Act("cat", tuple(args[0]), axis=kwargs.get("axis", args[1] if len(args) > 1 else 0))
        if last == "boolean_mask":
            return Act("mask", *args)
        if last == "intersection" and d.split(".")[0] in ("set", "builtin"):
            out = PySet(args[0])
            for o in args[1:]:
                out = PySet(x for x in out if x in o)
            return out
        if last == "TensorSpec":
            return Act("TensorSpec", *[a for a in args if isinstance(a, (Leaf, Act))])
        return NotImplemented

    def attribute(tr, obj, attr, n):
        if isinstance(obj, Leaf) and attr == "shape":
            return (sp.Symbol("n_" + obj.name),)
        if isinstance(obj, Leaf) and attr == "dtype":
            return sp.Symbol("dt_" + obj.name)
        raise Unmodelled("attribute %s of %r" % (attr, obj))

    hooks = {"builtin.isinstance": isinst, "numeric_call_first": numeric, "attribute": attribute, "allow_shape": True}
    hooks.update(extra or {})
    return Translator(repo, hooks=hooks, max_depth=14)


def run_semantics(repo, chk):
    """-> set of function keys decided by interpretation (all obligations of that function hold or are reported)"""
    chk.rule("K-sem", "each structural helper, interpreted on a datum with a dict, a list, a tuple, a nested dict and a nested tuple, returns exactly what its specification says (leaf action applied to every leaf, structure rebuilt with the same container kinds, options forwarded, partner relations)")
    decided = set()
    D = datum()
    F = lambda x, *a, **k: Act("F", x, *a, **k)
    A0, K0, SEL, AX = sp.Symbol("A0"), sp.Symbol("K0"), sp.Symbol("select"), sp.Symbol("axis")

    def check(key, text, fn_call, want, also=()):
        f = repo.fn(key)
        try:
            got = fn_call(f)
        except Unmodelled as e:
            chk.info("K-sem: %s is not interpretable (%s); the syntactic rules decide it" % (key.split("::")[1], e))
            return
        ok = got == want
        chk.oblige("K-sem", "%s: %s" % (key.split("::")[1], text), ok)
        decided.add(key)
        for k in also:
            decided.add(k)
        if not ok:
            chk.violation("K-sem", key, "semantics", "%s: on D = %r the result is %r, the specification gives %r" % (text, D, got, want), file=key.split("::")[0], line=f.lineno)

    # leaf-less hasattr(x, "shape") for data_struct
    def hasattr_hook_translator():
        tr = make_translator(repo)
        orig = tr.builtin

        def builtin(name, args, kwargs, n):
            if name == "hasattr" and len(args) == 2 and args[1] == "shape":
                return isinstance(args[0], Leaf)
            return orig(name, args, kwargs, n)

        tr.builtin = builtin
        return tr

    check(DATA + "::data_map", "fun applied to every leaf with the extra args / kwargs, containers rebuilt",
          lambda f: make_translator(repo).call_fn(f, [D, PyFunc(F)], {"args": (A0,), "kwargs": {"k": K0}}),
          smap(lambda x: Act("F", x, A0, k=K0), D))
    check(DATA + "::data_struct", "shape tuple of every leaf, containers rebuilt",
          lambda f: hasattr_hook_translator().call_fn(f, [D]),
          smap(lambda x: (sp.Symbol("n_" + x.name),), D))
    check(DATA + "::data_mask", "tf.boolean_mask(leaf, select) on every leaf",
          lambda f: make_translator(repo).call_fn(f, [D, SEL]),
          smap(lambda x: Act("mask", x, SEL), D))
    D2 = datum("M")
    check(DATA + "::data_merge", "leaves concatenated pairwise along the given axis at every depth",
          lambda f: make_translator(repo).call_fn(f, [D, D2], {"axis": AX}),
          zip_struct(lambda x, y: Act("cat", (x, y), axis=AX), D, D2))
    check(DATA + "::data_strip", "the named keys dropped at every dict level, everything else kept",
          lambda f: make_translator(repo).call_fn(f, [D, ["d", "a"]]), spec_strip(D, ["d", "a"]))
    check(DATA + "::data_strip", "a single key given as a string",
          lambda f: make_translator(repo).call_fn(f, [D, "z"]), spec_strip(D, ["z"]))
    check(DATA + "::flatten_dict_data", "one entry per leaf, keyed by the path joined with the default `{}/{}`",
          lambda f: _str_keys(make_translator(repo).call_fn(f, [D])), _str_keys(spec_flatten(D, lambda a, b: "%s/%s" % (a, b))))
    check(DATA + "::flatten_dict_data", "a caller-supplied joining function is used at every depth",
          lambda f: _str_keys(make_translator(repo).call_fn(f, [D, PyFunc(lambda a, b: "%s.%s" % (a, b))])), _str_keys(spec_flatten(D, lambda a, b: "%s.%s" % (a, b))))
    check(CORE + "::simple_deepcopy", "same structure, same leaves",
          lambda f: make_translator(repo).call_fn(f, [D]), D)
    check(CORE + "::rename_data_dict", "dict keys renamed at every depth, leaves kept",
          lambda f: make_translator(repo).call_fn(f, [D, {"a": "A", "d": "DD"}]), spec_rename(D, {"a": "A", "d": "DD"}))
    # split: every leaf is cut by the splitter with the given options, pieces regrouped per batch
    piece = lambda x, *a, **k: [Act("piece", x, 0, *a, **k), Act("piece", x, 1, *a, **k)]
    want_split = [smap(lambda x, i=i: Act("piece", x, i, A0, k=K0), D) for i in (0, 1)]
    check(DATA + "::data_generator", "the splitter is applied to every leaf with args / kwargs and the pieces are regrouped batch by batch",
          lambda f: make_translator(repo).call_fn(f, [D], {"fun": PyFunc(piece), "args": (A0,), "kwargs": {"k": K0}}),
          want_split, also=(DATA + "::data_generator._gen",))
    # data_split forwards batch size and axis to _data_split
    ds_hook = {DATA + "::_data_split": lambda tr, args, kwargs, n: [Act("piece", args[0], 0, *args[1:], **kwargs), Act("piece", args[0], 1, *args[1:], **kwargs)]}
    BS = sp.Symbol("batch")
    check(DATA + "::data_split", "data_generator with _data_split, batch size and axis forwarded",
          lambda f: make_translator(repo, ds_hook).call_fn(f, [D, BS], {"axis": AX}),
          [smap(lambda x, i=i: Act("piece", x, i, BS, axis=AX), D) for i in (0, 1)])
    # split then merge puts the pieces of each leaf back together, in order
    def roundtrip(f):
        tr = make_translator(repo)
        parts = tr.call_fn(repo.fn(DATA + "::data_generator"), [D], {"fun": PyFunc(lambda x, *a, **k: [Act("piece", x, 0), Act("piece", x, 1)])})
        return tr.call_fn(f, list(parts), {"axis": sp.Integer(0)})
    f_merge = repo.fn(DATA + "::data_merge")
    try:
        got = roundtrip(f_merge)
        want = smap(lambda x: Act("cat", (Act("piece", x, 0), Act("piece", x, 1)), axis=sp.Integer(0)), D)
        ok = got == want
        chk.oblige("K-sem", "data_merge(*data_generator(D)): every leaf is the concatenation of its own pieces in order", ok)
        if not ok:
            chk.violation("K-sem", f_merge.key, "split-merge", "split followed by merge gives %r, expected %r" % (got, want), file=DATA, line=f_merge.lineno)
    except Unmodelled as e:
        chk.info("K-sem: split/merge round trip not interpretable: %s" % e)
    # wrap_function: flatten enumerates the leaves in sorted-key order, nest puts a flat list back
    flat_want = spec_leaves_sorted(D)
    check(WRAP + "::_flatten", "leaves enumerated depth first, dict entries in sorted key order",
          lambda f: list(make_translator(repo).call_fn(f, [D])), flat_want)
    # the recorded structure: TensorSpec leaves, dict entries in sorted key order
    ws = repo.fn(WRAP + "::_wrap_struct")
    try:
        struct = make_translator(repo).call_fn(ws, [D])
        want_struct = smap(lambda x: Act("TensorSpec", x) if False else None, D)
        shape_ok = key_order(struct) == key_order({k: D[k] for k in sorted(D)} if False else _sorted_copy(D)) and all(isinstance(x, Act) and x.what == "TensorSpec" for x in spec_leaves_sorted(struct))
        chk.oblige("K-sem", "_wrap_struct: every leaf becomes a TensorSpec, containers rebuilt with dict entries in sorted key order", shape_ok)
        decided.add(ws.key)
        if not shape_ok:
            chk.violation("K-sem", ws.key, "semantics", "_wrap_struct(D) = %r: leaves must become TensorSpec and dict entries must be in sorted key order (the tensors of later calls are bound positionally)" % (struct,), file=WRAP, line=ws.lineno)
        # nest puts a flat list back into the recorded structure, in the order _flatten produces
        vals = [Leaf("V%d" % i) for i in range(len(flat_want))]
        check(WRAP + "::_nest", "a flat list put back leaf by leaf into the recorded (TensorSpec) structure: inverse of _flatten",
              lambda f: _nest_call(repo, f, struct, vals), spec_nest(_sorted_copy(D), iter(vals)))
        fl = repo.fn(WRAP + "::_flatten")
        got_rt = list(make_translator(repo).call_fn(fl, [_nest_call(repo, repo.fn(WRAP + "::_nest"), struct, vals)]))
        ok_rt = got_rt == vals
        chk.oblige("K-sem", "_flatten(_nest(struct, values)) == values", ok_rt)
        if not ok_rt:
            chk.violation("K-sem", fl.key, "flatten-nest", "_flatten(_nest(struct, values)) = %r, expected %r" % (got_rt, vals), file=WRAP, line=fl.lineno)
    except Unmodelled as e:
        chk.info("K-sem: _wrap_struct / _nest not interpretable: %s" % e)
    return decided


def _sorted_copy(d):
    if isinstance(d, dict):
        return {k: _sorted_copy(d[k]) for k in sorted(d)}
    if isinstance(d, list):
        return [_sorted_copy(v) for v in d]
    if isinstance(d, tuple):
        return tuple(_sorted_copy(v) for v in d)
    return d


def _str_keys(d):
    return {str(k): v for k, v in d.items()} if isinstance(d, dict) else d


def _nest_call(repo, f, D, vals):
    """_nest uses a small mutable counter object (class Count): model it as a python object"""
    cnt = repo.mod(WRAP).classes.get("Count")
    if cnt is None:
        raise Unmodelled("class Count vanished")
    hooks = {cnt.key: lambda tr, args, kwargs, n: SelfObj(cnt, {"idx": sp.Integer(0)}), "allow_attr_store": True}
    return make_translator(repo, hooks).call_fn(f, [D, vals])
