"""C02 clause A-cover: every (chain, final particle) that is not its own reference gets an alignment rotation.

cal_angle_from_particle is interpreted as a whole on a three-chain topology (A -> R0 D, R0 -> B C; A -> R1 C, R1 -> B D;
A -> R2 B, R2 -> C D) with the helicity-angle builder and the reference rule replaced by probes.  The reference rule
(rule 1: the chain in which the particle comes straight from the top decay) names a different reference chain for
every final particle, so each chain - the first one included - needs aligning for two of the three particles.
Decided: after the call, `aligned_angle` is present for exactly the (chain, particle) pairs whose chain is not the
particle's reference chain, and it is built from this chain's own frame and the reference frame of that particle
(r_boost on and off, final_rest on and off, both reference rules)."""
import numpy as np
import sympy as sp

from ..model import AnalysisError
from ..sym import PyFunc, SelfObj, Translator, Unmodelled

CAL = "tf_pwa/cal_angle.py"


class _Tok(str):
    """hashable printable token (particles)"""


def check_alignment_cover(repo, chk):
    chk.rule("A-cover", "cal_angle_from_particle interpreted as a whole on three chains of three different topologies (helicity-angle builder and reference rule as probes; r_boost / final_rest on and off; reference rule 1 and 2): `aligned_angle` is stored for exactly the (chain, final particle) pairs whose chain is not that particle's reference chain - the first chain included - and is computed from the frames of this chain and of the particle's reference chain")
    fn = repo.fn(CAL + "::cal_angle_from_particle")
    names = fn.all_param_names()
    for need in ("r_boost", "align_ref"):
        if need not in names:
            raise AnalysisError("cal_angle_from_particle lost its option `%s`" % need)
    A, B, C, D = _Tok("A"), _Tok("B"), _Tok("C"), _Tok("D")
    R = [_Tok("R0"), _Tok("R1"), _Tok("R2")]

    class _Dec(str):
        """decay token: a string (comparable, hashable) that carries `core` and `outs`"""
        tok_attrs = None

    def dec(core, outs):
        d_ = _Dec("%s->%s" % (core, "+".join(outs)))
        d_.tok_attrs = {"core": core, "outs": list(outs)}
        return d_

    chains = [
        (dec(A, [R[0], D]), dec(R[0], [B, C])),
        (dec(A, [R[1], C]), dec(R[1], [B, D])),
        (dec(A, [R[2], B]), dec(R[2], [C, D])),
    ]
    finals = [B, C, D]
    ref_chain = {D: 0, C: 1, B: 2}   # the chain whose top decay emits the particle

    def frames(k, p):
        return {"x": sp.Symbol("x_%d%s" % (k, p)), "z": sp.Symbol("z_%d%s" % (k, p))}

    n_cases = 0
    for r_boost in (True, False):
        for final_rest in (True, False):
            for align_ref in (None, "center_mass"):
                label = "r_boost=%s final_rest=%s align_ref=%s" % (r_boost, final_rest, align_ref)
                decay_data_probe = {}

                def helicity(tr, args, kwargs, node):
                    chain = args[1] if len(args) > 1 else kwargs.get("decay_chain")
                    k = chains.index(chain)
                    out = {"r_matrix": {p: sp.Symbol("r_%d%s" % (k, p), commutative=False) for p in finals},
                           "b_matrix": {p: sp.Symbol("b_%d%s" % (k, p), commutative=False) for p in finals}}
                    for d_ in chain:
                        out[d_] = {p: dict(frames(k, p), ang={"alpha": sp.Symbol("al_%d%s" % (k, p))}) for p in d_.tok_attrs["outs"]}
                    decay_data_probe[k] = out
                    return out

                def ref_rule(tr, args, kwargs, node):
                    dd = args[2] if len(args) > 2 else kwargs.get("decay_data")
                    set_x, refm = {}, {}
                    for p in finals:
                        k = ref_chain[p]
                        d_ = next(x for x in chains[k] if p in x.tok_attrs["outs"])
                        set_x[p] = (chains[k], dd[chains[k]][d_][p])
                        refm[p] = {"r_matrix": {"x": sp.Symbol("rref_%s" % p, commutative=False)}, "b_matrix": {"x": sp.Symbol("bref_%s" % p, commutative=False)}}
                    return set_x, refm

                def ref_rule2(tr, args, kwargs, node):
                    # reference rule 2 (align_ref="center_mass"): one canonical frame per particle, no reference chain -
                    # every chain is rotated, the one whose top decay emits the particle included
                    set_x, refm = {}, {}
                    for p in finals:
                        set_x[p] = (None, {"x": sp.Symbol("xcan_%s" % p), "z": sp.Symbol("zcan_%s" % p)})
                        refm[p] = {"r_matrix": {"x": sp.Symbol("rref_%s" % p, commutative=False)}, "b_matrix": {"x": sp.Symbol("bref_%s" % p, commutative=False)}}
                    return set_x, refm

                def su2(tr, args, kwargs, node):
                    a = [x for x in args if not (isinstance(x, SelfObj) and not x.attrs)]
                    v = a[-1]
                    return v if isinstance(v, sp.Expr) else sp.Symbol("M(%s)" % (v,), commutative=False)

                def su2_inv(tr, args, kwargs, node):
                    v = args[-1]
                    if isinstance(v, dict):
                        v = v.get("x", sp.Symbol("M(%s)" % sorted(v), commutative=False))
                    return sp.sympify(v) ** -1

                def sym_method(tr, obj, name, args, kwargs):
                    if name == "get_euler_angle":
                        return ("euler", sp.sympify(obj))
                    if name == "inv" and not args:
                        return sp.sympify(obj) ** -1
                    return NotImplemented

                su2cls = repo.cls("tf_pwa/angle.py::SU2M")
                eul = repo.cls("tf_pwa/angle.py::EulerAngle")
                hooks = {
                    CAL + "::cal_helicity_angle": helicity,
                    CAL + "::aligned_angle_ref_rule1": ref_rule,
                    CAL + "::aligned_angle_ref_rule2": ref_rule2,
                    su2cls.key: su2,
                    "sym_method": sym_method,
                    "allow_shape": True, "concrete_zeros": True, "stack_as_array": True, "allow_attr_store": True,
                }
                lv = repo.cls("tf_pwa/angle.py::LorentzVector")
                if "vect" in lv.methods:
                    hooks[lv.methods["vect"].key] = lambda tr, args, kwargs, node: np.array(sp.symbols("px py pz", real=True), dtype=object)
                if "inv" in su2cls.methods:
                    hooks[su2cls.methods["inv"].key] = su2_inv
                if "angle_zx_zx" in eul.methods:
                    hooks[eul.methods["angle_zx_zx"].key] = lambda tr, args, kwargs, node: ("zxzx",) + tuple(a for a in args if not isinstance(a, SelfObj)) + tuple(kwargs.values())
                ds = repo.fn_opt("tf_pwa/data.py::data_strip") if hasattr(repo, "fn_opt") else None
                if ds is not None:
                    hooks[ds.key] = lambda tr, args, kwargs, node: args[0]
                grp = SelfObj(None, {"top": A, "outs": list(finals), "topology_structure": PyFunc(lambda: list(chains))})
                tr = Translator(repo, hooks=hooks, max_depth=2)
                call_kwargs = {"using_topology": True, "random_z": False, "r_boost": r_boost, "align_ref": align_ref}
                if "final_rest" in names:
                    call_kwargs["final_rest"] = final_rest
                if "only_left_angle" in names:
                    call_kwargs["only_left_angle"] = False
                data = {A: {"p": sp.Symbol("P4")}}
                try:
                    tr.call_fn(fn, [data, grp], call_kwargs)
                except Unmodelled as e:
                    raise AnalysisError("cal_angle_from_particle cannot be interpreted (%s): %s" % (label, e))
                missing, extra, wrong = [], [], []
                for k, chain in enumerate(chains):
                    for d_ in chain:
                        for p in d_.tok_attrs["outs"]:
                            if p not in finals:
                                continue
                            entry = decay_data_probe[k][d_][p]
                            has = "aligned_angle" in entry
                            need_ = ref_chain[p] != k or align_ref == "center_mass"
                            if need_ and not has:
                                missing.append((k, p))
                            if has and not need_:
                                extra.append((k, p))
                            if has and need_:
                                val = entry["aligned_angle"]
                                text = str(val)
                                own = ("r_%d%s" % (k, p)) if r_boost else ("x_%d%s" % (k, p))
                                ref = ("rref_%s" % p) if r_boost else (("xcan_%s" % p) if align_ref == "center_mass" else ("x_%d%s" % (ref_chain[p], p)))
                                if own not in text or ref not in text:
                                    wrong.append((k, p, text[:80]))
                ok = not (missing or extra or wrong)
                n_cases += 1
                chk.oblige("A-cover", "%s: aligned_angle on the %d (chain, particle) pairs that need it, built from own and reference frames" % (label, 9 if align_ref == "center_mass" else 6), ok)
                if missing:
                    chk.violation("A-cover", fn.key, "missing:%s" % label, "%s: no alignment rotation is stored for %s (chain index, particle) although the particle's reference chain is another one (%s): the helicity frames of that particle differ between the chains, so the interference between them is wrong for a spinning final-state particle" % (label, missing, {str(p): c for p, c in ref_chain.items()}), file=CAL, line=fn.lineno)
                elif wrong:
                    chk.violation("A-cover", fn.key, "frames:%s" % label, "%s: the alignment rotation of (chain %s, %s) is %s: it is not built from this chain's own frame and the reference frame of the particle" % ((label,) + wrong[0]), file=CAL, line=fn.lineno)
                elif extra:
                    chk.violation("A-cover", fn.key, "extra:%s" % label, "%s: an alignment rotation is stored for the reference chain itself: %s" % (label, extra), file=CAL, line=fn.lineno)
    chk.require_count("A-cover", 8)
