"""C12 clause: Wigner small-d and D matrices equal the exact Wigner formula (E6, bounded in the spin).

  E6-wigner  for every 2j = 0..J (J = 4 quick, 8 thorough) the table generator small_d_weight(2j) is evaluated by
             constant folding (integer loops, factorials, exact square roots), small_d_matrix(theta, 2j) is translated
             with sin(theta/2) = S, cos(theta/2) = C, and every entry [a][b] equals the exact Wigner formula
             d^j_{m_a m_b}(theta), m_a = -j + a, as a polynomial identity in (C, S); d d^T = 1 modulo C^2 + S^2 = 1
  E6-Dconj   D_matrix_conj(alpha, beta, gamma, 2j)[a][b] == exp(i m_a alpha) d^j_{m_a m_b}(beta) exp(i m_b gamma)
             (row index with alpha, column index with gamma) for 2j = 0..3
  E6-gather  get_D_matrix_lambda(angle, ja, la, lb, lc)[ia][ib][ic] == D^{ja *}_{la_ia, lb_ib - lc_ic} when
             |lb_ib - lc_ic| <= ja and 0 otherwise (the delta-index gather the amplitudes consume), for several
             spin assignments incl. half-integer ones and lc = None
Unitarity and the group property D(R1) D(R2) = D(R1 R2) are properties of the exact Wigner matrices; they hold for
the code's matrices because these are proved equal to them entry by entry (for the spins covered).
The checker's reference formula is itself cross-checked against sympy.physics.quantum.spin.Rotation.d on every run.
"""
import numpy as np
import sympy as sp

from ..model import AnalysisError
from ..sym import Translator, Unmodelled, equal

DF = "tf_pwa/dfun.py::"


def wigner_d(j2, a, b, C, S):
    """exact d^j_{m,m'}(theta) with j = j2/2, m = -j + a, m' = -j + b, as a polynomial in C = cos(theta/2), S = sin(theta/2)"""
    j = sp.Rational(j2, 2)
    m, mp = -j + a, -j + b
    f = sp.factorial
    tot = sp.Integer(0)
    k = 0
    while True:
        d1, d2, d3, d4 = j + mp - k, k, j - k - m, k - mp + m
        if d1 < 0 or d3 < 0:
            break
        if d4 >= 0:
            tot += (-1) ** (k - mp + m) * sp.sqrt(f(j + m) * f(j - m) * f(j + mp) * f(j - mp)) / (f(d1) * f(d2) * f(d3) * f(d4)) * C ** (2 * j - 2 * k + mp - m) * S ** (2 * k - mp + m)
        k += 1
    return tot


def _selftest(C, S):
    """the reference equals sympy's own Wigner small-d (a second, independent implementation) for j <= 3/2"""
    from sympy.physics.quantum.spin import Rotation

    b = sp.Symbol("b", positive=True)
    for j2 in range(0, 4):
        j = sp.Rational(j2, 2)
        for a in range(j2 + 1):
            for c in range(j2 + 1):
                ref = Rotation.d(j, -j + a, -j + c, b).doit()
                mine = wigner_d(j2, a, c, sp.cos(b / 2), sp.sin(b / 2))
                if sp.simplify(sp.expand_trig(ref - mine)) != 0:
                    v = abs(complex(sp.N((ref - mine).subs(b, sp.Rational(7, 10)))))
                    if v > 1e-12:
                        raise AnalysisError("checker's Wigner reference disagrees with sympy at 2j=%d (%d,%d)" % (j2, a, c))


def check_wigner(repo, chk, tier):
    chk.rule("E6-wigner", "small_d_matrix(theta, 2j) equals the exact Wigner d^j_{m m'}(theta) entry by entry (table generator constant-folded, polynomial identity in cos/sin of theta/2), and d d^T = 1, for 2j = 0..%d" % (4 if tier == "quick" else 8))
    chk.rule("E6-Dconj", "D_matrix_conj(alpha, beta, gamma, 2j)[a][b] == exp(i m_a alpha) d^j_{ab}(beta) exp(i m_b gamma) for 2j = 0..%d" % (4 if tier == "quick" else 6))
    TH, AL, GA = sp.symbols("TH AL GA", real=True)
    # sin / cos of theta / 2 as free REAL quantities: the property quantifies over all angles (a negative beta is the
    # inverse rotation), so neither is assumed positive
    S, C = sp.symbols("S C", real=True)
    _selftest(C, S)

    def clip_first(tr, d_, args, kwargs, n):
        # tf.clip_by_value(x, lo, hi) / np.clip: element-wise max(lo, min(hi, x)), kept symbolic
        if d_.split(".")[-1] in ("clip_by_value", "clip") and len(args) >= 3:
            lo, hi = sp.sympify(args[1]), sp.sympify(args[2])
            f_ = lambda x: sp.Max(lo, sp.Min(hi, sp.sympify(x)))
            x = args[0]
            if isinstance(x, np.ndarray):
                out = np.empty(x.shape, dtype=object)
                for idx in np.ndindex(x.shape):
                    out[idx] = f_(x[idx])
                return out
            return f_(x)
        return NotImplemented

    def trig(kind):
        def f(tr, a):
            if sp.simplify(a - TH / 2) == 0:
                return C if kind == "cos" else S
            return sp.cos(a) if kind == "cos" else sp.sin(a)
        return f

    hooks = {"stack_as_array": True, "concrete_zeros": True, "unary:cos": trig("cos"), "unary:sin": trig("sin"), "numeric_call_first": clip_first}
    sd = repo.fn(DF + "small_d_matrix")
    dc = repo.fn(DF + "D_matrix_conj")
    jmax = 4 if tier == "quick" else 8
    n_bad = 0
    for j2 in range(0, jmax + 1):
        tr = Translator(repo, hooks=hooks, max_depth=6)
        try:
            d = tr.call_fn(sd, [TH, sp.Integer(j2)])
        except Unmodelled as e:
            raise AnalysisError("small_d_matrix / small_d_weight not foldable for 2j=%d: %s" % (j2, e))
        if getattr(d, "shape", None) != (1, j2 + 1, j2 + 1):
            raise AnalysisError("small_d_matrix(theta, %d) has shape %s, expected (1, %d, %d)" % (j2, getattr(d, "shape", None), j2 + 1, j2 + 1))
        bad = []
        for a in range(j2 + 1):
            for b in range(j2 + 1):
                ok, detail = equal(sp.sympify(d[0][a][b]), wigner_d(j2, a, b, C, S))
                if ok is None:
                    raise AnalysisError("E6 normaliser too weak for d^{%d/2}[%d][%d]: %s" % (j2, a, b, detail))
                if not ok:
                    bad.append("d^{%s}_{%s,%s}: code %s, exact %s" % (sp.Rational(j2, 2), sp.Rational(2 * a - j2, 2), sp.Rational(2 * b - j2, 2), d[0][a][b], wigner_d(j2, a, b, C, S)))
        chk.oblige("E6-wigner", "2j=%d: all %d entries of small_d_matrix equal the exact Wigner formula" % (j2, (j2 + 1) ** 2), not bad)
        if bad:
            n_bad += 1
            chk.violation("E6-wigner", sd.key, "2j=%d" % j2, "%d of %d entries differ from the exact Wigner small-d for 2j=%d; first: %s" % (len(bad), (j2 + 1) ** 2, j2, bad[0]), file="tf_pwa/dfun.py", line=sd.lineno)
        # orthogonality modulo C^2 + S^2 = 1
        if j2 <= 4 and not bad:
            worst = None
            for a in range(j2 + 1):
                for c in range(j2 + 1):
                    tot = sum(sp.sympify(d[0][a][b]) * sp.sympify(d[0][c][b]) for b in range(j2 + 1))
                    tot = sp.expand(tot.subs(S, sp.sqrt(1 - C ** 2)))
                    if sp.simplify(tot - (1 if a == c else 0)) != 0:
                        worst = (a, c, tot)
            chk.oblige("E6-wigner", "2j=%d: d d^T == 1 modulo C^2 + S^2 = 1" % j2, worst is None)
            if worst:
                chk.violation("E6-wigner", sd.key, "orthogonal:2j=%d" % j2, "row %d . row %d of d == %s" % worst, file="tf_pwa/dfun.py", line=sd.lineno)
        # spinless cascades: d^J_{00}(theta) = P_J(cos theta) (integer J)
        if j2 % 2 == 0 and not bad:
            J = j2 // 2
            x = sp.Symbol("x")
            leg = sp.legendre(J, x).subs(x, C ** 2 - S ** 2)
            got = sp.sympify(d[0][J][J])
            ok = sp.expand((got - leg).subs(S, sp.sqrt(1 - C ** 2))) == 0
            chk.oblige("E6-wigner", "J=%d: d^J_00(theta) == P_J(cos theta)" % J, ok)
            if not ok:
                chk.violation("E6-wigner", sd.key, "legendre:J=%d" % J, "d^%d_00 = %s is not the Legendre polynomial P_%d(cos theta)" % (J, got, J), file="tf_pwa/dfun.py", line=sd.lineno)
    # D* = exp(i m1 alpha) d exp(i m2 gamma)
    for j2 in range(0, 5 if tier == "quick" else 7):
        tr = Translator(repo, hooks=hooks, max_depth=6)
        try:
            Dm = tr.call_fn(dc, [AL, TH, GA, sp.Integer(j2)])
        except Unmodelled as e:
            raise AnalysisError("D_matrix_conj not translatable for 2j=%d: %s" % (j2, e))
        if getattr(Dm, "shape", None) != (1, j2 + 1, j2 + 1):
            raise AnalysisError("D_matrix_conj(.., %d) has shape %s" % (j2, getattr(Dm, "shape", None)))
        bad = []
        for a in range(j2 + 1):
            for b in range(j2 + 1):
                ma, mb = sp.Rational(2 * a - j2, 2), sp.Rational(2 * b - j2, 2)
                want = sp.exp(sp.I * ma * AL) * wigner_d(j2, a, b, C, S) * sp.exp(sp.I * mb * GA)
                ok, detail = equal(sp.sympify(Dm[0][a][b]), want)
                if ok is None:
                    raise AnalysisError("E6 normaliser too weak for D*[%d][%d] (2j=%d): %s" % (a, b, j2, detail))
                if not ok:
                    bad.append("D*_{%s,%s}: code %s, expected %s" % (ma, mb, Dm[0][a][b], want))
        chk.oblige("E6-Dconj", "2j=%d: D_matrix_conj[a][b] == exp(i m_a alpha) d_ab(beta) exp(i m_b gamma) for all %d entries" % (j2, (j2 + 1) ** 2), not bad)
        if bad:
            chk.violation("E6-Dconj", dc.key, "2j=%d" % j2, "%d entries deviate; first: %s" % (len(bad), bad[0]), file="tf_pwa/dfun.py", line=dc.lineno)


def check_gather(repo, chk):
    chk.rule("E6-gather", "get_D_matrix_lambda(angle, ja, la, lb, lc)[ia][ib][ic] == conj D^{ja}_{la[ia], lb[ib]-lc[ic]}(alpha, beta, gamma) for |lb-lc| <= ja and 0 otherwise (delta-index gather), incl. lc=None")
    TH, AL, GA = sp.symbols("TH AL GA", real=True)
    S, C = sp.symbols("S C", positive=True)
    half = sp.Rational(1, 2)

    def trig(kind):
        def f(tr, a):
            if sp.simplify(a - TH / 2) == 0:
                return C if kind == "cos" else S
            return sp.cos(a) if kind == "cos" else sp.sin(a)
        return f

    def spins(j):
        return [-j + k for k in range(int(2 * j) + 1)]

    hooks = {"stack_as_array": True, "concrete_zeros": True, "unary:cos": trig("cos"), "unary:sin": trig("sin"),
             "builtin.isinstance": lambda tr, args, kwargs, n: isinstance(args[0], int) or bool(getattr(args[0], "is_Integer", False))}
    fn = repo.fn(DF + "get_D_matrix_lambda")
    cases = [
        (sp.Integer(1), spins(sp.Integer(1)), spins(half), spins(half)),
        (half, spins(half), spins(sp.Integer(1)), spins(half)),
        (sp.Integer(1), spins(sp.Integer(1)), spins(sp.Integer(1)), [sp.Integer(0)]),
        (3 * half, spins(3 * half), spins(half), [sp.Integer(0)]),
        (sp.Integer(1), spins(sp.Integer(1)), spins(sp.Integer(1)), None),
        (sp.Integer(1), spins(sp.Integer(1)), [sp.Integer(-1), sp.Integer(1)], spins(sp.Integer(1))),  # massless-like helicity list
        (sp.Integer(1), [sp.Integer(-1), sp.Integer(1)], spins(half), spins(half)),  # restricted mother helicities (virtual photon)
        (sp.Integer(1), [sp.Integer(1), sp.Integer(0), sp.Integer(-1)], spins(sp.Integer(1)), [sp.Integer(0)]),  # mother helicities in descending order
        (3 * half, [3 * half], spins(half), [sp.Integer(0)]),  # a single mother helicity
    ]
    # no rotation (angle None): the matrix is delta(la[ia], lb[ib]) - by helicity VALUE, whatever the two lists hold
    for ja, la, lb in ((sp.Integer(1), spins(sp.Integer(1)), spins(sp.Integer(1))), (sp.Integer(1), spins(sp.Integer(1)), [sp.Integer(-1), sp.Integer(1)]), (sp.Integer(1), [sp.Integer(1), sp.Integer(0), sp.Integer(-1)], spins(sp.Integer(1))), (half, spins(half), [half]), (sp.Integer(1), [sp.Integer(0)], spins(sp.Integer(1)))):
        tr = Translator(repo, hooks=hooks, max_depth=8)
        try:
            out = tr.call_fn(fn, [None, ja, list(la), list(lb)])
        except Unmodelled as e:
            raise AnalysisError("get_D_matrix_lambda(None, ...) not translatable for la=%s, lb=%s: %s" % (la, lb, e))
        shape = (1, len(la), len(lb))
        bad = []
        if getattr(out, "shape", None) != shape:
            bad.append("shape %s, expected %s" % (getattr(out, "shape", None), shape))
        else:
            for ia, a in enumerate(la):
                for ib, b in enumerate(lb):
                    want = 1 if a == b else 0
                    if sp.simplify(sp.sympify(out[0][ia][ib]) - want) != 0:
                        bad.append("[%s][%s]: code %s, expected %s" % (a, b, out[0][ia][ib], want))
        chk.oblige("E6-gather", "no rotation (angle None), la=%s, lb=%s: delta of the helicity values" % (la, lb), not bad)
        if bad:
            chk.violation("E6-gather", fn.key, "identity:la=%s:lb=%s" % (la, lb), "without a rotation the matrix must be delta(la, lb) by helicity value; %d entries deviate, first: %s - for a restricted or re-ordered helicity list (massless particle, descending order) helicities of different value are identified" % (len(bad), bad[0]), file="tf_pwa/dfun.py", line=fn.lineno)
    for ja, la, lb, lc in cases:
        tr = Translator(repo, hooks=hooks, max_depth=8)
        ang = {"alpha": AL, "beta": TH, "gamma": GA}
        try:
            out = tr.call_fn(fn, [ang, ja, list(la), list(lb)] + ([list(lc)] if lc is not None else []))
        except Unmodelled as e:
            raise AnalysisError("get_D_matrix_lambda not translatable for ja=%s: %s" % (ja, e))
        lcs = lc if lc is not None else [sp.Integer(0)]
        shape = (1, len(la), len(lb)) + ((len(lc),) if lc is not None else ())
        if getattr(out, "shape", None) != shape:
            raise AnalysisError("get_D_matrix_lambda(ja=%s) has shape %s, expected %s" % (ja, getattr(out, "shape", None), shape))
        j2 = int(2 * ja)
        bad = []
        for ia, a in enumerate(la):
            for ib, b in enumerate(lb):
                for ic, c in enumerate(lcs):
                    got = out[0][ia][ib][ic] if lc is not None else out[0][ia][ib]
                    delta = b - c
                    if abs(delta) <= ja:
                        want = sp.exp(sp.I * a * AL) * wigner_d(j2, int(a + ja), int(delta + ja), C, S) * sp.exp(sp.I * delta * GA)
                    else:
                        want = sp.Integer(0)
                    ok, detail = equal(sp.sympify(got), want)
                    if ok is None:
                        raise AnalysisError("E6 normaliser too weak for the gathered D entry (%s,%s,%s): %s" % (a, b, c, detail))
                    if not ok:
                        bad.append("D*[%s][%s-%s]: code %s, expected %s" % (a, b, c, got, want))
        chk.oblige("E6-gather", "ja=%s, lb=%s, lc=%s: all %d gathered entries are conj D_{la, lb-lc} (0 beyond |lb-lc| > ja)" % (ja, lb, lc, len(la) * len(lb) * len(lcs)), not bad)
        if bad:
            chk.violation("E6-gather", fn.key, "ja=%s:lc=%s" % (ja, lc), "%d gathered entries deviate; first: %s" % (len(bad), bad[0]), file="tf_pwa/dfun.py", line=fn.lineno)
