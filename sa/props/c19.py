"""C19 - a configuration determines the model deterministically and completely.

Three structural clauses are decided (static, AST only; tf_pwa is never imported):

(a) E4  NO HASH-ORDER DEPENDENCE.  On the path configuration -> chains ->
    parameter names -> constraints (decay_config.py, config_loader.py,
    base_config.py, particle.py, amp/core.py) the iteration order of a `set`
    (process dependent for str / particle elements under hash randomisation)
    never reaches an order-sensitive sink unsorted.  Flow-insensitive taint per
    function, one level interprocedural (set-returning functions of the program,
    `self.attr = <set>`):
       kinds   S = set, M = mapping filled in set order, U = sequence/iterator in set order
       sources set displays / comprehensions, set(), frozenset(), set operators,
               .union/.intersection/..., dict-view algebra, set-returning functions,
               list(S)/tuple(S)/enumerate(S)/[.. for x in S] (-> U), dicts filled in a set loop (-> M)
       clean   sorted(), min/max/len/sum/any/all, membership / equality tests,
               set-to-set operations, loops whose body only does set / keyed insertion
       sinks   indexing / pop / next(iter()), order-sensitive loop bodies, return /
               attribute store / argument escape of U, string building, unpacking
    Every sink must be in the frozen, reasoned table BENIGN (whose guards are
    re-verified structurally); a new one is a violation.

(b) ALIAS TABLES AGREE.  DecayConfig.particle_key_map contains the documented
    aliases Par->P, m0->mass, g0->width; rename_params applies the map; every
    alias target is a parameter the particle constructors read by name; the
    second alias table (prefix_map / simple_map of add_particle_constraints)
    agrees with it and with the attribute names the constraint code reads.

(c) EXPORT <-> IMPORT KEYS.  Every key written by BaseParticle.as_config /
    BaseDecay.as_config / DecayGroup.as_config is consumed by name on the import
    path (alias map, constructor parameters, DecayConfig readers), the export
    contains the quantum numbers, and each exported key K is the attribute K that
    the constructor stored from its parameter K.

Randomness of *values* (random m_min..m_max start value, random fix_chain_val)
is outside the statement and reported as INFO.  Chain completeness versus the
selection rules is not decided.
"""
import ast
import os

from ..model import AnalysisError, Repo, const_value, dotted, norm_text, walk_local, walk_stmt
from ..resolve import Resolver

DEC = "tf_pwa/config_loader/decay_config.py"
LOADER = "tf_pwa/config_loader/config_loader.py"
BASE = "tf_pwa/config_loader/base_config.py"
PART = "tf_pwa/particle.py"
CORE = "tf_pwa/amp/core.py"
FILES = [DEC, LOADER, BASE, PART, CORE]

# ----------------------------------------------------------------- (a) tables
# (function, sink kind) -> (reason, guard)       [keys carry no variable names, texts or positions]
#   guard ("assert-len1", "<root>")    : the function asserts len(v) == 1 for the set-ordered variable v used at the sink
#   guard ("enumerate-index", "<root>"): every v.add(x) adds the index variable of an enclosing enumerate() loop and v is
#                                        built only by set() + add  (elements are ints: hashed by value, not randomised)
#   guard ("loop-appends-len1", None)  : every list the loop body appends to is asserted to have exactly one element
#   guard None                         : reasoned only
# A sink of the same kind in the same function is accepted only if its *own* variable passes the guard.
BENIGN = {
    (DEC + "::DecayConfig.get_decay_struct", "index"): (
        "list(top_tmp)[0] picks *the* top particle: the set is asserted to have exactly one element, so its order is immaterial",
        ("assert-len1", "<root>"),
    ),
    (DEC + "::DecayConfig.get_decay_struct", "next"): (
        "next(iter(top_tmp)) picks *the* top particle: the set is asserted to have exactly one element, so its order is immaterial",
        ("assert-len1", "<root>"),
    ),
    (CORE + "::DecayGroup.set_used_res", "arg:self.set_used_chains"): (
        "the set holds chain indices (ints from enumerate, hashed by value, not by the randomised str hash); the resulting "
        "chains_idx only selects which chains enter the commutative coherent sum - chains, parameter names and constraints "
        "are not derived from it (set_used_res is a selection helper for partial sums, not part of loading)",
        ("enumerate-index", "<root>"),
    ),
    (CORE + "::trans_model", "loop"): (
        "`var` is a dict keyed by the sympy free symbols (set order); the loop collects the (name, model) pairs whose value is a "
        "string into model_name, which is asserted to have exactly one element - its order is immaterial",
        ("loop-appends-len1", None),
    ),
    (CORE + "::trans_model", "arg:expr.subs"): (
        "the dict handed to sympy's Expr.subs maps distinct free symbols to numbers; a simultaneous substitution of distinct "
        "atoms by constants does not depend on the dict order, and no chain / name / constraint is derived from it",
        None,
    ),
}

MIN_SITES = 36  # set-typed sites analysed today: 52 (+1 fixture line); a vanished one is fine, a vacuous run is not

# attributes of external libraries that are sets (sympy: Expr.free_symbols is a set of Symbols, hashed by name)
EXTERNAL_SET_ATTRS = {"free_symbols"}

SANITIZERS = {"sorted", "min", "max", "len", "sum", "any", "all", "bool"}
SET_CTORS = {"set", "frozenset"}
SEQ_CTORS = {"list", "tuple", "enumerate", "zip", "reversed", "iter", "map", "filter"}
NEUTRAL_CALLS = {"print", "isinstance", "type", "id", "hasattr", "callable"}
DIAG_CALLS = {"print", "warn", "warning", "info", "debug", "error"}
STRING_CALLS = {"str", "repr", "format", "join"}
SET_RESULT_METHODS = {"union", "intersection", "difference", "symmetric_difference", "copy"}
SET_OK_METHODS = {
    "add", "discard", "remove", "update", "clear", "issubset", "issuperset", "isdisjoint",
    "intersection_update", "difference_update", "symmetric_difference_update",
} | SET_RESULT_METHODS
MAP_OK_METHODS = {"get", "setdefault", "update", "pop", "clear", "copy"}
MAP_VIEW_METHODS = {"items", "keys", "values"}
SEQ_OK_METHODS = {"append", "extend", "remove", "count", "sort", "insert", "copy", "clear"}
SET_OPS = (ast.BitOr, ast.BitAnd, ast.Sub, ast.BitXor)

# calls allowed inside the body of a loop over a set without making it order-sensitive
PURE_BUILTINS = {
    "enumerate", "range", "zip", "len", "isinstance", "str", "int", "float", "bool", "abs", "min", "max",
    "sorted", "sum", "any", "all", "getattr", "hasattr", "type", "tuple", "list", "set", "frozenset", "dict",
    "repr", "print", "callable",
}
PURE_METHODS = {
    "get", "items", "keys", "values", "startswith", "endswith", "split", "strip", "format", "lower", "upper",
    "replace", "copy",
}


def _parents(fnode):
    pm = {}
    stack = [fnode]
    while stack:
        n = stack.pop()
        for c in ast.iter_child_nodes(n):
            pm[c] = n
            if isinstance(c, (ast.FunctionDef, ast.AsyncFunctionDef, ast.Lambda, ast.ClassDef)):
                continue
            stack.append(c)
    return pm


class Taint:
    """whole-program part: return summaries and attribute kinds"""

    def __init__(self, repo):
        self.repo = repo
        self.res = Resolver(repo)
        self.fn_an = {}
        self.summary = {}
        self.in_progress = set()
        self.attr_kinds = {}  # attribute name -> kinds (from `self.attr = <S>` in the analysed files)

    def star_resolve(self, mod, name, depth=0):
        """`from pkg import name` where pkg re-exports through `from .x import *` (not followed by sa/model.py)"""
        from ..model import Fn

        if depth > 4 or name not in mod.imports:
            return None
        tmod, attr = mod.imports[name]
        if attr is None:
            return None
        return self._find_in(self.repo.by_modname.get(tmod), attr, depth)

    def _find_in(self, m, attr, depth):
        from ..model import Fn

        if m is None or depth > 4:
            return None
        if attr in m.funcs and m.funcs[attr].parent is None and m.funcs[attr].cls is None:
            return m.funcs[attr]
        if attr in m.imports and m.imports[attr][1] is not None:
            r = self._find_in(self.repo.by_modname.get(m.imports[attr][0]), m.imports[attr][1], depth + 1)
            if r is not None:
                return r
        is_pkg = m.rel.endswith("__init__.py")
        for st in m.tree.body:
            if isinstance(st, ast.ImportFrom) and any(a.name == "*" for a in st.names):
                base = m.modname.split(".")
                if not is_pkg:
                    base = base[:-1]
                if st.level > 1:
                    base = base[: len(base) - (st.level - 1)]
                target = ".".join((base if st.level else []) + ([st.module] if st.module else []))
                r = self._find_in(self.repo.by_modname.get(target), attr, depth + 1)
                if r is not None:
                    return r
        return None

    def analysis(self, fn):
        if fn not in self.fn_an:
            self.fn_an[fn] = FnTaint(self, fn)
        return self.fn_an[fn]

    def ret_summary(self, fn):
        """kinds (frozenset) or tuple of kinds for `return a, b, c`"""
        if fn in self.summary:
            return self.summary[fn]
        if fn in self.in_progress or len(self.in_progress) > 3:
            return frozenset()
        self.in_progress.add(fn)
        try:
            an = self.analysis(fn)
            rets = [n for n in walk_local(fn.node) if isinstance(n, ast.Return) and n.value is not None]
            out = frozenset()
            tuples = []
            for r in rets:
                if isinstance(r.value, ast.Tuple):
                    tuples.append(tuple(an.kind(e) for e in r.value.elts))
                else:
                    out |= an.kind(r.value)
            if tuples and not out and len({len(t) for t in tuples}) == 1 and len(tuples) == len(rets):
                merged = tuple(frozenset().union(*[t[i] for t in tuples]) for i in range(len(tuples[0])))
                out = merged if any(merged) else frozenset()
            elif tuples:
                for t in tuples:
                    for k in t:
                        out |= k
        finally:
            self.in_progress.discard(fn)
        self.summary[fn] = out
        return out


class FnTaint:
    def __init__(self, ta, fn):
        self.ta = ta
        self.fn = fn
        self.assigns = {}  # name -> {id(stmt): [stmt, kinds]}   (position-aware, see lookup)
        self.list_typed = set()
        self.pm = _parents(fn.node)
        self._loops_cache = {}
        self._build_env()

    # ------------------------------------------------------------- environment
    def _loops(self, node):
        k = id(node)
        if k not in self._loops_cache:
            out = set()
            p = self.pm.get(node)
            while p is not None:
                if isinstance(p, (ast.For, ast.While)):
                    out.add(id(p))
                p = self.pm.get(p)
            self._loops_cache[k] = out
        return self._loops_cache[k]

    def lookup(self, name, at=None):
        """kinds of local `name` as seen at node `at`: assignments that end textually before `at`,
        plus assignments sharing a loop with `at` (loop-carried).  Enclosing functions: all assignments."""
        recs = self.assigns.get(name)
        if recs is None:
            if self.fn.parent is not None:
                return self.ta.analysis(self.fn.parent).lookup(name, None)
            return frozenset()
        out = frozenset()
        for stmt, kinds in recs.values():
            if at is None or not hasattr(at, "lineno"):
                out |= kinds
            elif getattr(stmt, "end_lineno", stmt.lineno) < at.lineno:
                out |= kinds
            elif self._loops(stmt) & self._loops(at):
                out |= kinds
        return out

    def _add(self, name, kinds, stmt):
        recs = self.assigns.setdefault(name, {})
        rec = recs.get(id(stmt))
        if rec is None:
            recs[id(stmt)] = [stmt, frozenset(kinds)]
            return bool(kinds)
        new = rec[1] | kinds
        if new != rec[1]:
            rec[1] = new
            return True
        return False

    def _build_env(self):
        nodes = list(walk_local(self.fn.node))
        for n in nodes:
            if isinstance(n, ast.Assign) and isinstance(n.value, (ast.List, ast.ListComp)):
                for t in n.targets:
                    if isinstance(t, ast.Name):
                        self.list_typed.add(t.id)
            if isinstance(n, ast.Assign) and isinstance(n.value, ast.Call) and isinstance(n.value.func, ast.Name) and n.value.func.id == "list":
                for t in n.targets:
                    if isinstance(t, ast.Name):
                        self.list_typed.add(t.id)
        # every local store gets a record (possibly with no kinds) so that closures / positions resolve
        for n in nodes:
            if isinstance(n, ast.Name) and isinstance(n.ctx, ast.Store):
                st = self.pm.get(n)
                while st is not None and not isinstance(st, (ast.stmt, ast.comprehension)):
                    st = self.pm.get(st)
                if st is not None and hasattr(st, "lineno"):
                    self._add(n.id, frozenset(), st)
        for _ in range(6):
            changed = False
            for n in nodes:
                if isinstance(n, ast.Assign):
                    for t in n.targets:
                        changed |= self._assign(t, n.value, n)
                elif isinstance(n, ast.AnnAssign) and n.value is not None:
                    changed |= self._assign(n.target, n.value, n)
                elif isinstance(n, ast.AugAssign) and isinstance(n.target, ast.Name):
                    k = self.kind(n.value)
                    if isinstance(n.op, SET_OPS) and ("S" in k or "S" in self.lookup(n.target.id, n)):
                        changed |= self._add(n.target.id, frozenset("S"), n)
                    elif isinstance(n.op, ast.Add) and ("U" in k or "S" in k or "M" in k):
                        changed |= self._add(n.target.id, frozenset("U"), n)
                elif isinstance(n, ast.For) and self.kind(n.iter):
                    # dicts / containers filled by key inside a loop over a set inherit its order
                    for s in walk_stmt(n):
                        if isinstance(s, ast.Assign):
                            for t in s.targets:
                                if isinstance(t, ast.Subscript) and isinstance(t.value, ast.Name):
                                    changed |= self._add(t.value.id, frozenset("M"), s)
                elif isinstance(n, ast.With):
                    for it in n.items:
                        if it.optional_vars is not None and isinstance(it.optional_vars, ast.Name):
                            changed |= self._add(it.optional_vars.id, self.kind(it.context_expr), n)
            if not changed:
                break

    def _assign(self, target, value, stmt):
        changed = False
        if isinstance(target, ast.Name):
            return self._add(target.id, self.kind(value), stmt)
        if isinstance(target, (ast.Tuple, ast.List)):
            if isinstance(value, (ast.Tuple, ast.List)) and len(value.elts) == len(target.elts):
                for t, v in zip(target.elts, value.elts):
                    changed |= self._assign(t, v, stmt)
                return changed
            summ = self.call_summary(value) if isinstance(value, ast.Call) else None
            if isinstance(summ, tuple) and len(summ) == len(target.elts):
                for t, k in zip(target.elts, summ):
                    if isinstance(t, ast.Name):
                        changed |= self._add(t.id, k, stmt)
                return changed
            return False
        if isinstance(target, ast.Attribute) and isinstance(target.value, ast.Name) and target.value.id == "self":
            k = self.kind(value)
            if "S" in k:
                old = self.ta.attr_kinds.get(target.attr, frozenset())
                if not old >= frozenset("S"):
                    self.ta.attr_kinds[target.attr] = old | frozenset("S")
                    return True
        return False

    # ------------------------------------------------------------------- kinds
    def call_summary(self, call):
        """return summary of a call to a function of the program (kinds or tuple of kinds)"""
        f = call.func
        if isinstance(f, ast.Name) and f.id in (SANITIZERS | SET_CTORS | SEQ_CTORS | NEUTRAL_CALLS | PURE_BUILTINS | {"next"}):
            return None
        if isinstance(f, ast.Attribute) and f.attr in (SET_OK_METHODS | MAP_OK_METHODS | MAP_VIEW_METHODS | SEQ_OK_METHODS | PURE_METHODS | {"popitem", "join", "index"}):
            return None
        if not isinstance(f, (ast.Name, ast.Attribute)):
            return None
        cands, how = self.ta.res.resolve_call(self.fn, call)
        if not cands and isinstance(f, ast.Name):
            g = self.ta.star_resolve(self.fn.mod, f.id)
            if g is not None:
                cands, how = [g], "module*"
        if not cands or how in ("byname", "generic", "external"):
            return None
        out = None
        for g in cands[:8]:
            if g.name == "__init__":
                continue
            s = self.ta.ret_summary(g)
            if out is None:
                out = s
            elif isinstance(out, tuple) and isinstance(s, tuple) and len(out) == len(s):
                out = tuple(a | b for a, b in zip(out, s))
            else:
                fa = frozenset().union(*out) if isinstance(out, tuple) else out
                fb = frozenset().union(*s) if isinstance(s, tuple) else s
                out = fa | fb
        return out

    def kind(self, e):
        E = frozenset()
        if e is None:
            return E
        if isinstance(e, (ast.Set, ast.SetComp)):
            return frozenset("S")
        if isinstance(e, ast.Name):
            return self.lookup(e.id, e)
        if isinstance(e, ast.Attribute):
            if e.attr in EXTERNAL_SET_ATTRS:
                return frozenset("S")
            if isinstance(e.value, ast.Name) and e.value.id == "self":
                return self.ta.attr_kinds.get(e.attr, E)
            return E
        if isinstance(e, ast.Call):
            f = e.func
            args = list(e.args) + [k.value for k in e.keywords]
            if isinstance(f, ast.Name):
                if f.id in SET_CTORS:
                    return frozenset("S")
                if f.id == "sorted":
                    if any(k.arg == "key" for k in e.keywords) and e.args and self.kind(e.args[0]):
                        return frozenset("U")  # ties keep the hash order
                    return E
                if f.id in SANITIZERS:
                    return E
                if f.id in SEQ_CTORS:
                    if any(self.kind(a) for a in args):
                        return frozenset("U")
                    return E
                if f.id == "dict" and any(self.kind(a) for a in args):
                    return frozenset("M")
            if isinstance(f, ast.Attribute):
                rk = self.kind(f.value)
                if f.attr in SET_RESULT_METHODS and "S" in rk:
                    return frozenset("S")
                if f.attr in MAP_VIEW_METHODS and ("M" in rk):
                    return frozenset("U")
                if f.attr == "copy" and rk:
                    return rk
                if f.attr == "fromkeys" and any(self.kind(a) for a in args):
                    return frozenset("M")
            s = self.call_summary(e)
            if isinstance(s, tuple):
                return E  # a tuple holding sets: its own order is fixed; elements are typed when unpacked (see events)
            return s or E
        if isinstance(e, ast.BinOp):
            lk, rk = self.kind(e.left), self.kind(e.right)
            if isinstance(e.op, SET_OPS):
                if "S" in lk or "S" in rk:
                    return frozenset("S")
                if _is_view(e.left) or _is_view(e.right):
                    return frozenset("S")
                return E
            if isinstance(e.op, ast.Add) and (lk or rk):
                return frozenset("U")
            return E
        if isinstance(e, ast.BoolOp):
            out = E
            for v in e.values:
                out |= self.kind(v)
            return out
        if isinstance(e, ast.IfExp):
            return self.kind(e.body) | self.kind(e.orelse)
        if isinstance(e, (ast.ListComp, ast.GeneratorExp)):
            if any(self.kind(g.iter) for g in e.generators):
                return frozenset("U")
            return E
        if isinstance(e, ast.DictComp):
            if any(self.kind(g.iter) for g in e.generators):
                return frozenset("M")
            return E
        if isinstance(e, ast.Starred):
            return self.kind(e.value)
        if isinstance(e, ast.NamedExpr):
            return self.kind(e.value)
        return E

    # ---------------------------------------------------------- loop bodies
    def _names_outside(self, loop, name):
        inside = {id(n) for n in ast.walk(loop)}
        for n in walk_local(self.fn.node):
            if isinstance(n, ast.Name) and n.id == name and id(n) not in inside:
                return True
        return False

    def _call_pure(self, c):
        f = c.func
        if isinstance(f, ast.Name):
            return f.id in PURE_BUILTINS
        if isinstance(f, ast.Attribute):
            rk = self.kind(f.value)
            if f.attr in ("add", "discard", "update") and ("S" in rk or "M" in rk):
                return True
            if f.attr in PURE_METHODS:
                return True
        return False

    def loop_reasons(self, loop):
        """why the body of `for x in <set>` depends on the iteration order ([] = it does not)"""
        reasons = []

        def expr_calls(e):
            if e is None:
                return
            for c in ast.walk(e):
                if isinstance(c, ast.Call) and not self._call_pure(c):
                    reasons.append("call `%s` runs once per element, in hash order" % norm_text(c)[:70])
                if isinstance(c, (ast.Yield, ast.YieldFrom)):
                    reasons.append("yields in hash order")

        def stmts(body):
            for st in body:
                if isinstance(st, ast.Expr):
                    if isinstance(st.value, ast.Constant):
                        continue
                    expr_calls(st.value)
                    if not isinstance(st.value, (ast.Call, ast.Yield, ast.YieldFrom)):
                        pass
                elif isinstance(st, ast.Assign):
                    expr_calls(st.value)
                    for t in st.targets:
                        for tt in (t.elts if isinstance(t, (ast.Tuple, ast.List)) else [t]):
                            if isinstance(tt, ast.Name):
                                if not isinstance(st.value, ast.Constant) and self._names_outside(loop, tt.id):
                                    reasons.append("local `%s` carries a value out of the loop (last/first element wins)" % tt.id)
                            elif isinstance(tt, ast.Subscript):
                                expr_calls(tt)  # keyed insertion: container is marked M by the environment
                            elif isinstance(tt, ast.Attribute):
                                if not isinstance(st.value, ast.Constant):
                                    reasons.append("attribute `%s` is overwritten per element (last element wins)" % norm_text(tt))
                            else:
                                reasons.append("unmodelled assignment target `%s`" % norm_text(tt))
                elif isinstance(st, ast.AugAssign):
                    expr_calls(st.value)
                    t = st.target
                    tk = self.kind(t) if isinstance(t, ast.Name) else frozenset()
                    if isinstance(st.op, SET_OPS) and "S" in tk:
                        continue
                    v = const_value(st.value)
                    if isinstance(v, (int,)) and not isinstance(v, bool) and not (isinstance(t, ast.Name) and t.id in self.list_typed):
                        continue
                    reasons.append("`%s` accumulates in hash order (list / string / float accumulation is order-sensitive)" % norm_text(st)[:60])
                elif isinstance(st, ast.If):
                    expr_calls(st.test)
                    stmts(st.body)
                    stmts(st.orelse)
                elif isinstance(st, (ast.For, ast.While)):
                    expr_calls(st.iter if isinstance(st, ast.For) else st.test)
                    stmts(st.body)
                    stmts(st.orelse)
                elif isinstance(st, ast.Return):
                    if st.value is not None and not isinstance(st.value, ast.Constant):
                        reasons.append("returns `%s` for the first element in hash order" % norm_text(st.value)[:50])
                elif isinstance(st, (ast.Break, ast.Continue, ast.Pass, ast.Raise, ast.Assert, ast.Delete)):
                    continue
                elif isinstance(st, ast.With):
                    for it in st.items:
                        expr_calls(it.context_expr)
                    stmts(st.body)
                elif isinstance(st, ast.Try):
                    stmts(st.body)
                    for h in st.handlers:
                        stmts(h.body)
                    stmts(st.orelse)
                    stmts(st.finalbody)
                else:
                    reasons.append("unmodelled statement %s in the loop body" % type(st).__name__)

        stmts(loop.body)
        stmts(loop.orelse)
        return reasons

    # ----------------------------------------------------------------- events
    def root_var(self, e):
        for n in ast.walk(e):
            if isinstance(n, ast.Name) and self.lookup(n.id, n):
                return n.id
        for n in ast.walk(e):
            if isinstance(n, ast.Attribute) and isinstance(n.value, ast.Name) and n.value.id == "self" and n.attr in self.ta.attr_kinds:
                return "self." + n.attr
        return norm_text(e)[:60]

    def in_diag(self, e):
        p = self.pm.get(e)
        while p is not None and not isinstance(p, (ast.FunctionDef, ast.AsyncFunctionDef)):
            if isinstance(p, (ast.Raise, ast.Assert)):
                return True
            if isinstance(p, ast.Call):
                d = dotted(p.func) or ""
                if d.split(".")[-1] in DIAG_CALLS:
                    return True
            if isinstance(p, ast.stmt):
                return False
            p = self.pm.get(p)
        return False

    def events(self):
        """yield (status, sinkkind, expr, text); status in {'src','ok','sink'}"""
        out = []
        for e in walk_local(self.fn.node):
            if not isinstance(e, ast.expr):
                continue
            if isinstance(e, ast.Name) and isinstance(e.ctx, (ast.Store, ast.Del)):
                continue
            k = self.kind(e)
            if not k:
                if isinstance(e, ast.Call):
                    summ = self.call_summary(e)
                    if isinstance(summ, tuple) and any(summ):
                        p = self.pm.get(e)
                        ok = isinstance(p, ast.Return) or (
                            isinstance(p, ast.Assign) and all(isinstance(t, (ast.Tuple, ast.List)) and len(t.elts) == len(summ) for t in p.targets)
                        )
                        if not ok:
                            raise AnalysisError("%s: tuple of sets returned by `%s` is neither unpacked nor returned - unmodelled" % (self.fn.key, norm_text(e)[:60]))
                        out.append(("src", "tuple(%s)" % ",".join("".join(sorted(x)) or "-" for x in summ), e, norm_text(e)[:70]))
                continue
            p = self.pm.get(e)
            if not isinstance(e, (ast.Name, ast.Attribute)):
                out.append(("src", "".join(sorted(k)), e, norm_text(e)[:70]))
            out.extend(self._context(e, k, p))
        return out

    def _context(self, e, k, p):
        ev = []
        unordered = bool(k & frozenset("UM"))
        txt = norm_text(e)[:60]

        def sink(kind, why):
            if self.in_diag(e):
                ev.append(("ok", "diagnostic", e, "%s only feeds a message / raise" % txt))
            else:
                ev.append(("sink", kind, e, why))

        if isinstance(p, ast.keyword):
            p = self.pm.get(p)
        if isinstance(p, (ast.Assign, ast.AnnAssign)):
            targets = p.targets if isinstance(p, ast.Assign) else [p.target]
            if e is not p.value:
                return ev
            for t in targets:
                if isinstance(t, ast.Name):
                    continue
                if isinstance(t, (ast.Tuple, ast.List)):
                    summ = self.call_summary(e) if isinstance(e, ast.Call) else None
                    if isinstance(summ, tuple) and len(summ) == len(t.elts):
                        continue
                    sink("unpack", "`%s` is unpacked positionally: which element lands in which variable depends on the hash order" % txt)
                elif isinstance(t, ast.Attribute):
                    if unordered:
                        sink("attr-store", "a sequence in hash order is stored in `%s`" % norm_text(t))
                    else:
                        ev.append(("ok", "attr", e, "set stored in %s (tracked by attribute name)" % norm_text(t)))
                elif isinstance(t, ast.Subscript):
                    if unordered:
                        sink("store", "a sequence in hash order is stored in `%s`" % norm_text(t))
            return ev
        if isinstance(p, ast.AugAssign):
            if isinstance(p.op, SET_OPS):
                ev.append(("ok", "setop", e, "set-to-set update"))
            elif isinstance(p.target, ast.Name):
                pass  # propagated (target becomes U)
            else:
                sink("store", "`%s` is accumulated into `%s`" % (txt, norm_text(p.target)))
            return ev
        if isinstance(p, ast.Call):
            f = p.func
            if e is f:
                return ev
            if isinstance(f, ast.Name):
                nm = f.id
                if nm == "sorted" and any(kw.arg == "key" for kw in p.keywords):
                    return ev  # result stays U (ties keep the hash order); judged where it is used
                if nm in SANITIZERS:
                    ev.append(("ok", "sanitised", e, "%s(%s) is order-insensitive" % (nm, txt)))
                    return ev
                if nm in SET_CTORS or nm in SEQ_CTORS or nm == "dict":
                    return ev  # propagates through kind()
                if nm in NEUTRAL_CALLS:
                    ev.append(("ok", "neutral", e, "%s(%s)" % (nm, txt)))
                    return ev
                if nm == "next":
                    sink("next", "next(..) takes the first element in hash order")
                    return ev
                if nm in STRING_CALLS:
                    sink("string", "%s(%s) renders the elements in hash order" % (nm, txt))
                    return ev
                sink("arg:%s" % nm, "`%s` escapes into %s(..) in hash order" % (txt, nm))
                return ev
            if isinstance(f, ast.Attribute):
                rk = self.kind(f.value)
                if f.attr in SET_OK_METHODS and "S" in rk and not unordered:
                    ev.append(("ok", "setop", e, "set-to-set %s" % f.attr))
                    return ev
                if f.attr in SET_OK_METHODS and "S" in rk:
                    ev.append(("ok", "setop", e, "%s(..) into a set" % f.attr))
                    return ev
                if f.attr in STRING_CALLS:
                    sink("string", "%s renders the elements in hash order" % norm_text(p)[:60])
                    return ev
                sink("arg:%s" % (dotted(f) or f.attr), "`%s` escapes into %s(..) in hash order" % (txt, dotted(f) or f.attr))
                return ev
            sink("arg:?", "`%s` escapes into a computed callee" % txt)
            return ev
        if isinstance(p, ast.Attribute):
            gp = self.pm.get(p)
            if isinstance(gp, ast.Call) and gp.func is p:
                m = p.attr
                if "S" in k and m in SET_OK_METHODS:
                    ev.append(("ok", "setop", e, "%s.%s(..)" % (txt, m)))
                elif "S" in k and m == "pop":
                    sink("pop", "%s.pop() removes an arbitrary element (hash order)" % txt)
                elif "M" in k and (m in MAP_OK_METHODS or m in MAP_VIEW_METHODS):
                    pass  # views propagate as U
                elif "M" in k and m == "popitem":
                    sink("pop", "%s.popitem() depends on the insertion (= hash) order" % txt)
                elif "U" in k and m in ("pop", "index"):
                    sink("index", "%s.%s(..) addresses a position of a sequence in hash order" % (txt, m))
                elif "U" in k and m in SEQ_OK_METHODS:
                    pass
                elif m in STRING_CALLS:
                    sink("string", "%s.%s" % (txt, m))
                else:
                    sink("method:%s" % m, "unmodelled method %s on a set-ordered value" % m)
            return ev
        if isinstance(p, ast.Compare):
            seq_ops = [o for o in p.ops if not isinstance(o, (ast.In, ast.NotIn, ast.Is, ast.IsNot))]
            if "U" in k and seq_ops:
                sink("compare", "`%s` compares a sequence in hash order element by element" % norm_text(p)[:70])
            else:
                ev.append(("ok", "compare", e, "membership / identity / set-equality test on %s" % txt))
            return ev
        if isinstance(p, ast.For) and e is p.iter:
            rs = self.loop_reasons(p)
            if rs:
                sink("loop", "loop over `%s` is order-sensitive: %s" % (txt, "; ".join(rs[:3])))
            else:
                ev.append(("ok", "loop", e, "loop over %s: body only does set / keyed insertion or order-free tests" % txt))
            return ev
        if isinstance(p, ast.comprehension):
            if e is p.iter:
                owner = self.pm.get(p)
                if isinstance(owner, ast.SetComp):
                    ev.append(("ok", "setcomp", e, "set comprehension over %s" % txt))
            return ev
        if isinstance(p, ast.Subscript):
            if e is p.value and "U" in k:
                sink("index", "`%s[..]` picks an element by position from a sequence in hash order" % txt)
            return ev
        if isinstance(p, ast.Return):
            if unordered:
                sink("return", "a sequence in hash order is returned")
            else:
                ev.append(("ok", "return", e, "returns a set (callers are analysed through the summary)"))
            return ev
        if isinstance(p, (ast.Yield, ast.YieldFrom)):
            sink("yield", "yields `%s`" % txt)
            return ev
        if isinstance(p, ast.Starred):
            sink("star", "*%s spreads the elements positionally" % txt)
            return ev
        if isinstance(p, ast.BinOp):
            if isinstance(p.op, SET_OPS) or isinstance(p.op, ast.Add):
                return ev
            sink("string", "`%s` is used in `%s`" % (txt, norm_text(p)[:50]))
            return ev
        if isinstance(p, (ast.BoolOp, ast.NamedExpr)):
            return ev
        if isinstance(p, ast.IfExp):
            if e is p.test:
                ev.append(("ok", "truth", e, "truth test"))
            return ev
        if isinstance(p, (ast.If, ast.While, ast.Assert)):
            ev.append(("ok", "truth", e, "truth test"))
            return ev
        if isinstance(p, ast.UnaryOp):
            ev.append(("ok", "truth", e, "truth test"))
            return ev
        if isinstance(p, (ast.Tuple, ast.List, ast.Set)):
            gp = self.pm.get(p)
            if isinstance(gp, ast.Return) or (isinstance(gp, ast.Assign) and gp.value is p):
                if unordered and isinstance(gp, ast.Return):
                    sink("return", "a sequence in hash order is returned inside a tuple")
                return ev
            if unordered:
                sink("container", "`%s` is placed in a container literal" % txt)
            return ev
        if isinstance(p, ast.Dict):
            if unordered:
                sink("container", "`%s` is placed in a dict literal" % txt)
            return ev
        if isinstance(p, (ast.JoinedStr, ast.FormattedValue)):
            sink("string", "`%s` is rendered into an f-string" % txt)
            return ev
        if isinstance(p, ast.Expr):
            return ev
        if isinstance(p, ast.withitem):
            return ev
        if isinstance(p, (ast.ListComp, ast.GeneratorExp, ast.DictComp, ast.SetComp)):
            # element expression of a comprehension
            if unordered:
                sink("container", "`%s` is an element of a comprehension result" % txt)
            return ev
        raise AnalysisError(
            "%s: set-ordered value `%s` used in an unmodelled context %s" % (self.fn.key, txt, type(p).__name__)
        )


def _is_view(e):
    return isinstance(e, ast.Call) and isinstance(e.func, ast.Attribute) and e.func.attr in ("keys", "items") and not e.args


# ------------------------------------------------------------------- guards
def guard_assert_len1(fn, var):
    for n in walk_local(fn.node):
        if isinstance(n, ast.Assert) and isinstance(n.test, ast.Compare) and len(n.test.ops) == 1 and isinstance(n.test.ops[0], ast.Eq):
            l, r = n.test.left, n.test.comparators[0]
            if (
                isinstance(l, ast.Call) and isinstance(l.func, ast.Name) and l.func.id == "len"
                and len(l.args) == 1 and isinstance(l.args[0], ast.Name) and l.args[0].id == var
                and const_value(r) == 1
            ):
                return True
    return False


def guard_enumerate_index(fn, var):
    """every `var.add(x)`: x is the index variable of an enclosing `for x, _ in enumerate(..)`; var only built by set()/add"""
    pm = _parents(fn.node)
    adds = 0
    for n in walk_local(fn.node):
        if isinstance(n, ast.Assign):
            for t in n.targets:
                if isinstance(t, ast.Name) and t.id == var:
                    v = n.value
                    ce = v if isinstance(v, ast.SetComp) else (v.args[0] if isinstance(v, ast.Call) and isinstance(v.func, ast.Name) and v.func.id == "set" and len(v.args) == 1 and isinstance(v.args[0], (ast.GeneratorExp, ast.ListComp, ast.SetComp)) else None)
                    if ce is not None:
                        # {j for .. for j, c in enumerate(..) ..}: the elements are enumerate indices
                        if isinstance(ce.elt, ast.Name) and any(
                            isinstance(g.iter, ast.Call) and isinstance(g.iter.func, ast.Name) and g.iter.func.id == "enumerate"
                            and isinstance(g.target, ast.Tuple) and isinstance(g.target.elts[0], ast.Name) and g.target.elts[0].id == ce.elt.id
                            for g in ce.generators
                        ):
                            adds += 1
                            continue
                        return False
                    if not (isinstance(v, ast.Call) and isinstance(v.func, ast.Name) and v.func.id == "set" and not v.args):
                        return False
        if isinstance(n, ast.AugAssign) and isinstance(n.target, ast.Name) and n.target.id == var:
            return False
        if isinstance(n, ast.Call) and isinstance(n.func, ast.Attribute) and isinstance(n.func.value, ast.Name) and n.func.value.id == var:
            if n.func.attr == "update" and len(n.args) == 1 and isinstance(n.args[0], (ast.GeneratorExp, ast.ListComp, ast.SetComp)):
                # var.update(j for j, c in enumerate(..) if ..): the elements are the enumerate indices
                ce = n.args[0]
                g = ce.generators[0]
                if not (
                    len(ce.generators) == 1 and isinstance(ce.elt, ast.Name)
                    and isinstance(g.iter, ast.Call) and isinstance(g.iter.func, ast.Name) and g.iter.func.id == "enumerate"
                    and isinstance(g.target, ast.Tuple) and isinstance(g.target.elts[0], ast.Name) and g.target.elts[0].id == ce.elt.id
                ):
                    return False
                adds += 1
                continue
            if n.func.attr != "add":
                return False
            if len(n.args) != 1 or not isinstance(n.args[0], ast.Name):
                return False
            x = n.args[0].id
            p = pm.get(n)
            ok = False
            while p is not None:
                if (
                    isinstance(p, ast.For) and isinstance(p.iter, ast.Call) and isinstance(p.iter.func, ast.Name)
                    and p.iter.func.id == "enumerate" and isinstance(p.target, ast.Tuple)
                    and isinstance(p.target.elts[0], ast.Name) and p.target.elts[0].id == x
                ):
                    ok = True
                    break
                p = pm.get(p)
            if not ok:
                return False
            adds += 1
    return adds > 0


def guard_loop_appends_len1(fn, loop):
    if not isinstance(loop, ast.For):
        return False
    recv = set()
    for n in ast.walk(loop):
        if isinstance(n, ast.Call) and isinstance(n.func, ast.Attribute) and n.func.attr in ("append", "extend", "insert"):
            if not isinstance(n.func.value, ast.Name):
                return False
            recv.add(n.func.value.id)
    return bool(recv) and all(guard_assert_len1(fn, r) for r in recv)


GUARDS = {"assert-len1": guard_assert_len1, "enumerate-index": guard_enumerate_index}


def analyse_order(repo, files):
    ta = Taint(repo)
    fns = []
    for rel in files:
        m = repo.mod(rel)
        fns.extend(sorted(m.funcs.values(), key=lambda f: f.node.lineno))
    # two rounds: the second sees attribute kinds recorded by the first
    for rnd in range(2):
        before = dict(ta.attr_kinds)
        ta.fn_an.clear()
        ta.summary.clear()
        for f in fns:
            ta.analysis(f)
        if ta.attr_kinds == before and rnd > 0:
            break
    results = []
    for f in fns:
        an = ta.analysis(f)
        for status, kind, e, text in an.events():
            results.append((f, status, kind, an.root_var(e), e, text))
    return ta, results


def run_order(repo, chk):
    ta, results = analyse_order(repo, FILES)
    used_benign = set()
    n = 0
    per_fn = {}
    for f, status, kind, var, e, text in results:
        n += 1
        per_fn.setdefault(f.key, 0)
        per_fn[f.key] += 1
        label = {"src": "source", "ok": "clean", "sink": "SINK"}[status]
        if status != "sink":
            chk.instance("E4-site", "%s #%d %s [%s] %s" % (f.key, per_fn[f.key], label, kind, text), nontrivial=(status != "src"))
            continue
        key = (f.key.split("#")[0], kind)
        if key not in BENIGN and var is not None:
            # a set-ordered value that the function asserts to hold exactly one element has no order to depend on,
            # however the element is taken out (index, next(iter()), one-element unpacking, pop)
            try:
                one = guard_assert_len1(f, var)
            except Exception:
                one = False
            if one:
                chk.instance("E4-site", "%s #%d sink [%s] %s (%s): the variable is asserted to have exactly one element - order immaterial" % (f.key, per_fn[f.key], kind, text, var))
                continue
        if key in BENIGN:
            reason, guard = BENIGN[key]
            gname, gvar = guard if guard is not None else ("none", None)
            if gvar == "<root>":
                gvar = var
            if guard is None:
                holds = True
            elif gname == "loop-appends-len1":
                holds = guard_loop_appends_len1(f, ta.analysis(f).pm.get(e))
            else:
                holds = GUARDS[gname](f, gvar)
            if holds:
                used_benign.add(key)
                chk.instance("E4-site", "%s #%d frozen-benign sink [%s] %s (%s); guard %s(%s) verified" % (f.key, per_fn[f.key], kind, text, var, gname, gvar or "-"))
                chk.info("frozen benign order-sensitive use %s|%s (variable %s): %s" % (key[0], kind, var, reason))
                continue
            chk.instance("E4-site", "%s #%d sink [%s] %s - guard %s(%s) DOES NOT HOLD" % (f.key, per_fn[f.key], kind, text, gname, gvar or "-"))
            chk.violation(
                "E4", f.key, "%s:%s" % (kind, var),
                "%s; this kind of use is frozen as benign in this function only under the guard %s(%s), which does not hold here" % (text, gname, gvar or "-"),
                file=f.mod.rel, line=getattr(e, "lineno", None),
            )
            continue
        chk.instance("E4-site", "%s #%d SINK [%s] %s" % (f.key, per_fn[f.key], kind, text))
        chk.violation(
            "E4", f.key, "%s:%s" % (kind, var),
            "set iteration order reaches an order-sensitive use unsorted: %s" % text,
            file=f.mod.rel, line=getattr(e, "lineno", None),
        )
    for key in sorted(set(BENIGN) - used_benign):
        chk.info("frozen benign instance no longer present (fine): %s|%s" % key)
    for a, k in sorted(ta.attr_kinds.items()):
        chk.info("attribute self.%s holds a set (tracked across methods)" % a)
    chk.extra["set_sites"] = n
    chk.extra["functions_scanned"] = sum(len(repo.mod(r).funcs) for r in FILES)
    chk.require_count("E4-site", MIN_SITES)
    # value randomness: INFO only
    for rel in FILES:
        m = repo.mod(rel)
        for f in m.funcs.values():
            for c in walk_local(f.node):
                if isinstance(c, ast.Call):
                    d = dotted(c.func) or ""
                    if d.startswith("random.") or ".random." in d or d.startswith("np.random"):
                        chk.info("intentional randomness of a *value* (outside the statement): %s calls %s" % (f.key, norm_text(c)[:60]))


# ------------------------------------------------------------ (b) alias tables
DOCUMENTED_ALIASES = {"Par": "P", "m0": "mass", "g0": "width"}  # Resonances.sample.yml / docs/resonacnes_params.rst


def dict_literal(node, what):
    if not isinstance(node, ast.Dict):
        raise AnalysisError("%s is not a dict literal any more" % what)
    out = {}
    for k, v in zip(node.keys, node.values):
        if k is None:
            out["**" + norm_text(v)] = v
            continue
        kk = const_value(k)
        if not isinstance(kk, str):
            raise AnalysisError("%s has a non-constant key %s" % (what, norm_text(k)))
        out[kk] = v
    return out


def find_assign(fn, target_text):
    found = [
        n for n in walk_local(fn.node)
        if isinstance(n, ast.Assign) and len(n.targets) == 1 and norm_text(n.targets[0]) == target_text
    ]
    if len(found) != 1:
        raise AnalysisError("%s: expected exactly one assignment to %s, found %d" % (fn.key, target_text, len(found)))
    return found[0]


def ctor_param_chain(repo, cls_key, root_key):
    """explicit parameter names accepted along Particle.__init__ -> ... -> BaseParticle.__init__"""
    c = repo.cls(cls_key)
    names = {}
    for k in c.mro:
        init = k.methods.get("__init__")
        if init is None:
            continue
        for p in init.all_param_names()[1:]:
            names.setdefault(p, init.qual)
        if init.key == root_key:
            break
        if init.node.args.kwarg is None:
            break
    return names


def run_alias(repo, chk):
    init = repo.fn(DEC + "::DecayConfig.__init__")
    pkm = dict_literal(find_assign(init, "self.particle_key_map").value, "particle_key_map")
    pkm = {k: const_value(v) for k, v in pkm.items()}
    dkm = dict_literal(find_assign(init, "self.decay_key_map").value, "decay_key_map")
    dkm = {k: const_value(v) for k, v in dkm.items()}
    if any(not isinstance(v, str) for v in list(pkm.values()) + list(dkm.values())):
        raise AnalysisError("alias map has a non-constant target")
    # b1 documented aliases
    for a, t in sorted(DOCUMENTED_ALIASES.items()):
        chk.instance("B-alias", "documented alias %s -> %s ; particle_key_map[%r] = %r" % (a, t, a, pkm.get(a)))
        if pkm.get(a) != t:
            chk.violation(
                "B-alias", init.key, "particle_key_map:%s" % a,
                "documented alias %s -> %s, but particle_key_map maps it to %r" % (a, t, pkm.get(a)),
                file=DEC, line=init.lineno,
            )
    # canonical names map to themselves (an alias target that is itself re-aliased would make the map order-dependent)
    for a, t in sorted(pkm.items()):
        if t in pkm and pkm[t] != t:
            chk.violation("B-alias", init.key, "particle_key_map:%s" % a, "alias target %r is itself aliased to %r" % (t, pkm[t]), file=DEC, line=init.lineno)
    # b2 the map is applied: rename_params interpreted on a parameter dictionary that holds every alias, every
    # canonical name and an unknown key, with the two maps as __init__ defines them
    rp = repo.fn(DEC + "::DecayConfig.rename_params")
    from ..sym import Translator, SelfObj, Unmodelled
    import sympy as _sp
    dcls = repo.cls(DEC + "::DecayConfig")
    d = rp.defaults().get("is_particle")
    if const_value(d) is not True:
        chk.violation("B-alias", rp.key, "is_particle", "rename_params(params) no longer defaults to the particle map", file=DEC, line=rp.lineno)
    for label, kwargs, km in (("default", {}, pkm), ("is_particle=True", {"is_particle": True}, pkm), ("is_particle=False", {"is_particle": False}, dkm)):
        keys = sorted(set(pkm) | set(dkm) | {"unknown_key"})
        for k in keys:
            # one key at a time: two aliases of one canonical name legitimately collide
            params = {k: _sp.Symbol("v_" + k)}
            tr = Translator(repo, max_depth=2)
            so = SelfObj(dcls, {"particle_key_map": dict(pkm), "decay_key_map": dict(dkm)})
            try:
                got = tr.call_fn(rp, (params,), dict(kwargs), self_obj=so)
            except Unmodelled as e:
                raise AnalysisError("rename_params cannot be interpreted: %s" % e)
            want = {km.get(k, k): params[k]}
            if not isinstance(got, dict) or got != want:
                chk.violation(
                    "B-alias", rp.key, "rename:%s:%s" % (label, k),
                    "rename_params({%r: v}, %s) returns %r, expected the value under %r" % (k, label, got, km.get(k, k)),
                    file=DEC, line=rp.lineno,
                )
        chk.instance("B-alias", "rename_params interpreted (%s) on %d single-key dictionaries: every key lands on map.get(k, k)" % (label, len(keys)))
    # ... and it is applied before the particle is built
    gds = repo.fn(DEC + "::DecayConfig.get_decay_struct.add_particle")
    order = []
    for n in sorted((x for x in walk_local(gds.node) if isinstance(x, ast.Call)), key=lambda x: (x.lineno, x.col_offset)):
        d = dotted(n.func) or ""
        if d in ("self.rename_params", "set_min_max", "get_particle"):
            order.append((d, n))
    names = [d for d, _ in order]
    if "self.rename_params" not in names or "get_particle" not in names or names.index("self.rename_params") > names.index("get_particle"):
        chk.violation("B-alias", gds.key, "rename-before-build", "add_particle does not rename the parameters before get_particle: %s" % names, file=DEC, line=gds.lineno)
    else:
        chk.instance("B-alias", "add_particle: %s" % " -> ".join(names))
    gp_call = [n for d, n in order if d == "get_particle"]
    renamed = {
        n.targets[0].id for n in walk_local(gds.node)
        if isinstance(n, ast.Assign) and len(n.targets) == 1 and isinstance(n.targets[0], ast.Name)
        and isinstance(n.value, ast.Call) and dotted(n.value.func) == "self.rename_params"
    }
    if gp_call and not any(k.arg is None and isinstance(k.value, ast.Name) and k.value.id in renamed for k in gp_call[0].keywords):
        chk.violation("B-alias", gds.key, "get_particle(**params)", "the renamed parameters are not passed to get_particle as **params", file=DEC, line=gp_call[0].lineno)
    # b3 every alias target is read by name by the constructors
    ctor = ctor_param_chain(repo, CORE + "::Particle", PART + "::BaseParticle.__init__")
    gpf = repo.fn(CORE + "::get_particle")
    for p in gpf.all_param_names():
        ctor.setdefault(p, gpf.qual)
    for a, t in sorted(pkm.items()):
        chk.instance("B-target", "particle alias %s -> %s ; read as parameter `%s` of %s" % (a, t, t, ctor.get(t, "NOBODY")))
        if t not in ctor:
            chk.violation(
                "B-target", init.key, "particle_key_map:%s->%s" % (a, t),
                "alias target %r is not a parameter of Particle.__init__ / BaseParticle.__init__ / get_particle: the value lands in **kwargs and is never read as %s"
                % (t, t),
                file=DEC, line=init.lineno,
            )
    dctor = ctor_param_chain(repo, CORE + "::HelicityDecay", PART + "::BaseDecay.__init__")
    gd = repo.fn(CORE + "::get_decay")
    gd_reads = {const_value(c.args[0]) for c in walk_local(gd.node) if isinstance(c, ast.Call) and isinstance(c.func, ast.Attribute) and c.func.attr in ("get", "pop") and c.args}
    for a, t in sorted(dkm.items()):
        who = dctor.get(t) or ("get_decay (.get)" if t in gd_reads else "NOBODY")
        chk.instance("B-target", "decay alias %s -> %s ; read by %s" % (a, t, who))
        if who == "NOBODY":
            chk.violation("B-target", init.key, "decay_key_map:%s->%s" % (a, t), "decay alias target %r is read by neither get_decay nor the decay constructors" % t, file=DEC, line=init.lineno)
    # set_min_max fills the canonical names
    for d, n in order:
        if d == "set_min_max":
            tgt = const_value(n.args[1]) if len(n.args) > 1 else None
            chk.instance("B-target", "add_particle: set_min_max fills %r (a constructor parameter: %s)" % (tgt, tgt in ctor))
            if tgt not in ctor or tgt not in pkm.values():
                chk.violation("B-target", gds.key, "set_min_max:%s" % tgt, "set_min_max fills %r, which is not a canonical particle parameter" % tgt, file=DEC, line=n.lineno)
    # constructor stores the canonical parameter under the attribute of the same name
    bp = repo.fn(PART + "::BaseParticle.__init__")
    stored = {}
    for n in walk_local(bp.node):
        if isinstance(n, ast.Assign) and len(n.targets) == 1 and isinstance(n.targets[0], ast.Attribute) and norm_text(n.targets[0].value) == "self":
            stored[n.targets[0].attr] = {x.id for x in ast.walk(n.value) if isinstance(x, ast.Name)}
    for t in ("mass", "width", "J", "P", "spins"):
        chk.instance("B-target", "BaseParticle.__init__: self.%s = f(%s)" % (t, ",".join(sorted(stored.get(t, [])))))
        if t not in stored or t not in stored[t]:
            chk.violation("B-target", bp.key, "self.%s" % t, "BaseParticle.__init__ does not store parameter `%s` as self.%s" % (t, t), file=PART, line=bp.lineno)
    # b4 second alias table in add_particle_constraints
    apc = repo.fn(LOADER + "::ConfigLoader.add_particle_constraints")
    prefix_map = {k: const_value(v) for k, v in dict_literal(find_assign(apc, "prefix_map").value, "prefix_map").items()}
    simple_map = {k: const_value(v) for k, v in dict_literal(find_assign(apc, "simple_map").value, "simple_map").items()}
    # attributes read on the loop variable that iterates `<chain>.inner` (the resonance object)
    res_vars = {
        n.target.id for n in walk_local(apc.node)
        if isinstance(n, ast.For) and isinstance(n.target, ast.Name) and isinstance(n.iter, ast.Attribute) and n.iter.attr == "inner"
    }
    if not res_vars:
        raise AnalysisError("add_particle_constraints no longer loops over `<chain>.inner`")
    attrs_read = {n.attr for n in walk_local(apc.node) if isinstance(n, ast.Attribute) and isinstance(n.value, ast.Name) and n.value.id in res_vars}
    for a, t in sorted(prefix_map.items()):
        if a in pkm:
            chk.instance("B-alias", "prefix_map[%r] = %r agrees with particle_key_map[%r] = %r" % (a, t, a, pkm[a]))
            if pkm[a] != t:
                chk.violation(
                    "B-alias", apc.key, "prefix_map:%s" % a,
                    "prefix_map maps %r to %r but particle_key_map maps it to %r: the constraint code and the particle constructor disagree" % (a, t, pkm[a]),
                    file=LOADER, line=apc.lineno,
                )
        else:
            base = t.rstrip("_")
            chk.instance("B-alias", "prefix_map[%r] = %r : stem %r is a canonical particle parameter: %s" % (a, t, base, base in pkm.values()))
            if base not in pkm.values():
                chk.violation("B-alias", apc.key, "prefix_map:%s" % a, "prefix %r expands to %r, whose stem is not a canonical particle parameter" % (a, t), file=LOADER, line=apc.lineno)
    for a in sorted(set(DOCUMENTED_ALIASES) & {"m0", "g0"}):
        if a not in prefix_map:
            chk.violation("B-alias", apc.key, "prefix_map:%s" % a, "prefix_map no longer knows the documented alias %r" % a, file=LOADER, line=apc.lineno)
    for a, t in sorted(simple_map.items()):
        chk.instance("B-alias", "simple_map[%r] = %r ; <resonance>.%s read by the constraint code: %s" % (a, t, t, t in attrs_read))
        if t not in pkm.values() or t not in attrs_read:
            chk.violation("B-alias", apc.key, "simple_map:%s" % a, "simple_map target %r is not the attribute the constraint code reads (%s)" % (t, sorted(attrs_read & {"mass", "width"})), file=LOADER, line=apc.lineno)
    for t in ("mass", "width"):
        if t not in attrs_read:
            chk.violation("B-alias", apc.key, "resonance.%s" % t, "add_particle_constraints no longer reads the resonance's .%s" % t, file=LOADER, line=apc.lineno)
    # the prefix rewrite, decided by interpreting the loop that fills params_dic from the particle's configuration
    from ..sym import Translator as _Tr, Unmodelled as _Un
    import sympy as _sp
    loops = [n for n in walk_local(apc.node) if isinstance(n, ast.For) and any(isinstance(c, ast.Call) and isinstance(c.func, ast.Attribute) and c.func.attr == "startswith" for c in ast.walk(n)) and any(isinstance(x, ast.Name) and x.id == "params_dic" for x in ast.walk(n))]
    all_sw = [c for c in walk_local(apc.node) if isinstance(c, ast.Call) and isinstance(c.func, ast.Attribute) and c.func.attr == "startswith"]
    loops = [l for l in loops if all(any(x is c for x in ast.walk(l)) for c in all_sw)]
    loops = sorted(loops, key=lambda l: sum(1 for _ in ast.walk(l)))[:1]  # the innermost loop that holds every prefix test
    if len(loops) != 1:
        raise AnalysisError("add_particle_constraints: the loop that copies prefixed keys into params_dic was not found (found %d)" % len(loops))
    cfg_in = {"m0_min": _sp.Symbol("a"), "g0_max": _sp.Symbol("b"), "m_sigma": _sp.Symbol("c"), "g_free": _sp.Symbol("d"), "mass_range": _sp.Symbol("e"), "width_x": _sp.Symbol("f"), "J": _sp.Symbol("g"), "model": "BW"}
    env = {"prefix_map": dict(prefix_map), "particle_config": dict(cfg_in), "params_dic": {}}
    try:
        _Tr(repo, max_depth=1).exec_stmt(loops[0], env, apc.mod, 0)
    except _Un as e:
        raise AnalysisError("add_particle_constraints: prefix loop cannot be interpreted: %s" % e)
    want_pd = {}
    for k_, v_ in cfg_in.items():
        for pfx, tgt in prefix_map.items():
            if k_.startswith(pfx):
                want_pd[tgt + k_[len(pfx):]] = v_
        if any(k_.startswith(t_) for t_ in prefix_map.values()):
            want_pd[k_] = v_
    okp = env["params_dic"] == want_pd
    chk.instance("B-alias", "add_particle_constraints: prefixed keys are rewritten as prefix_map[prefix] + rest (interpreted on %d keys -> %s): %s" % (len(cfg_in), sorted(env["params_dic"]), okp))
    if not okp:
        chk.violation("B-alias", apc.key, "prefix-rewrite", "the loop over the particle's configuration fills params_dic with %s, expected %s (prefix replaced by its canonical spelling, canonical keys copied)" % (env["params_dic"], want_pd), file=LOADER, line=loops[0].lineno)
    chk.extra["particle_key_map"] = pkm
    chk.extra["prefix_map"] = prefix_map
    chk.require_count("B-alias", 10)
    chk.require_count("B-target", 12)


# ------------------------------------------------------ (c) export <-> import
# exported keys that are deliberately not checked against a reader, with the reason
EXPORT_IGNORE = {}

REQUIRED_PARTICLE_KEYS = {"J", "P", "C", "spins", "mass", "width"}
REQUIRED_DECAY_KEYS = {"p_break", "c_break"}
REQUIRED_GROUP_KEYS = {"particle", "decay", "$top", "$finals"}


def str_keys_written(fn):
    """constant string keys written in fn: dict-literal keys and subscript indices"""
    dict_keys, sub_keys = {}, set()
    for n in walk_local(fn.node):
        if isinstance(n, ast.Dict):
            for k, v in zip(n.keys, n.values):
                kk = const_value(k) if k is not None else None
                if isinstance(kk, str):
                    dict_keys[kk] = v
        if isinstance(n, ast.Subscript):
            kk = const_value(n.slice)
            if isinstance(kk, str):
                sub_keys.add(kk)
    return dict_keys, sub_keys


def str_keys_read(fn):
    out = set()
    for n in walk_local(fn.node):
        if isinstance(n, ast.Subscript):
            kk = const_value(n.slice)
            if isinstance(kk, str):
                out.add(kk)
        if isinstance(n, ast.Call) and isinstance(n.func, ast.Attribute) and n.func.attr in ("get", "pop") and n.args:
            kk = const_value(n.args[0])
            if isinstance(kk, str):
                out.add(kk)
    return out


class _SelfSym:
    """marks the value `self.<name>` in an interpreted export"""


_FALSY = [False, None, 0, "", 0.0]


def _export_self(repo, fn, cls_key, name, extra=None, falsy=False):
    """a symbolic object for an export: attribute X holds the marker string "self.X" (or, with falsy=True, a falsy
    python value - False / None / 0 are legitimate option values that the export must not drop)"""
    from ..sym import SelfObj as _SO, Unmodelled as _Unm

    class SelfObj(_SO):
        """attributes the export reads by name (getattr(self, k)) are bound on demand"""

        def get(self, name, tr, depth):
            try:
                return _SO.get(self, name, tr, depth)
            except _Unm:
                if name.startswith("__"):
                    raise
                self.attrs[name] = _FALSY[len(self.attrs) % len(_FALSY)] if falsy else "self." + name
                return self.attrs[name]

    cls = repo.cls(cls_key)
    attrs = {}
    for n in walk_local(fn.node):
        if isinstance(n, ast.Attribute) and isinstance(n.value, ast.Name) and n.value.id == "self" and cls.lookup(n.attr) is None:
            attrs[n.attr] = _FALSY[len(attrs) % len(_FALSY)] if falsy else "self." + n.attr
    attrs["_kwargs"] = {"<kwargs>": 0 if falsy else "self._kwargs[..]"}
    attrs["__str__"] = name
    attrs.update(extra or {})
    return SelfObj(cls, attrs)


def interp_particle_export(repo):
    """BaseParticle.as_config interpreted on a symbolic particle named R -> (top key, {key: attribute name or None})"""
    from ..sym import Translator, Unmodelled
    w = repo.fn(PART + "::BaseParticle.as_config")
    res = []
    for falsy in (False, True):
        so = _export_self(repo, w, PART + "::BaseParticle", "R", falsy=falsy)
        try:
            got = Translator(repo, max_depth=2).call_fn(w, (), {}, self_obj=so)
        except Unmodelled as e:
            raise AnalysisError("BaseParticle.as_config cannot be interpreted: %s" % e)
        if not (isinstance(got, dict) and len(got) == 1 and isinstance(list(got.values())[0], dict)):
            raise AnalysisError("BaseParticle.as_config does not return {name: {options}}: %r" % (got,))
        res.append(got)
    (top, inner), = res[0].items()
    (_, inner_f), = res[1].items()
    inner = {k: (v if k in inner_f else "<dropped when the value is falsy>") for k, v in inner.items()}
    return top, {k: (str(v)[5:] if str(v).startswith("self.") else str(v)) for k, v in inner.items()}


def interp_decay_export(repo):
    """BaseDecay.as_config interpreted on A -> B C  -> (core key, daughters, {key: attribute name})"""
    from ..sym import Translator, Unmodelled, SelfObj
    w = repo.fn(PART + "::BaseDecay.as_config")
    pc = repo.cls(PART + "::BaseParticle")
    res = []
    for falsy in (False, True):
        so = _export_self(repo, w, PART + "::BaseDecay", "A->B+C", {"core": SelfObj(pc, {"__str__": "A"}), "outs": [SelfObj(pc, {"__str__": "B"}), SelfObj(pc, {"__str__": "C"})]}, falsy=falsy)
        try:
            got = Translator(repo, max_depth=2).call_fn(w, (), {}, self_obj=so)
        except Unmodelled as e:
            raise AnalysisError("BaseDecay.as_config cannot be interpreted: %s" % e)
        if not (isinstance(got, dict) and len(got) == 1 and isinstance(list(got.values())[0], list)):
            raise AnalysisError("BaseDecay.as_config does not return {core: [daughters.., {options}]}: %r" % (got,))
        res.append(got)
    (top, items), = res[0].items()
    (_, items_f), = res[1].items()
    names = [x for x in items if isinstance(x, str)]
    dicts = [x for x in items if isinstance(x, dict)]
    kept = set(k for x in items_f if isinstance(x, dict) for k in x)
    dicts = [{k: (v if k in kept else "<dropped when the value is falsy>") for k, v in d_.items()} for d_ in dicts]
    return top, names, dicts, items


def interp_group_export(repo):
    """DecayGroup.as_config interpreted on a small group; the particle / decay exports are replaced by markers"""
    from ..sym import Translator, Unmodelled, SelfObj
    import sympy as sp
    w = repo.fn(PART + "::DecayGroup.as_config")
    pc, dc, cc = repo.cls(PART + "::BaseParticle"), repo.cls(PART + "::BaseDecay"), repo.cls(PART + "::DecayChain")

    def P(n):
        return SelfObj(pc, {"__str__": n})

    def D(core, tag):
        return SelfObj(dc, {"__str__": tag, "core": P(core), "tag": tag})

    d1, d2, d3 = D("A", "d1"), D("R1", "d2"), D("A", "d3")
    chains = [SelfObj(cc, {"chain": [d1, d2]}), SelfObj(cc, {"chain": [d3]})]
    so = SelfObj(repo.cls(PART + "::DecayGroup"), {"top": P("A"), "outs": [P("B"), P("C"), P("D")], "resonances": [P("R1"), P("R2")], "chains": chains, "decay_chains": chains})
    hooks = {
        pc.methods["as_config"].key: lambda tr_, a_, k_, n_: {a_[0].attrs["__str__"]: sp.Symbol("particle:" + a_[0].attrs["__str__"])},
        dc.methods["as_config"].key: lambda tr_, a_, k_, n_: {a_[0].attrs["core"].attrs["__str__"]: sp.Symbol("decay:" + a_[0].attrs["tag"])},
    }
    try:
        got = Translator(repo, hooks=hooks, max_depth=3).call_fn(w, (), {}, self_obj=so)
    except Unmodelled as e:
        raise AnalysisError("DecayGroup.as_config cannot be interpreted: %s" % e)
    want = {
        "particle": {
            "$top": {"A": sp.Symbol("particle:A")},
            "$finals": {n: sp.Symbol("particle:" + n) for n in "BCD"},
            "R1": sp.Symbol("particle:R1"), "R2": sp.Symbol("particle:R2"),
        },
        "decay": {"A": [sp.Symbol("decay:d1"), sp.Symbol("decay:d3")], "R1": [sp.Symbol("decay:d2")]},
    }
    return got, want


def run_export(repo, chk):
    init = repo.fn(DEC + "::DecayConfig.__init__")
    pkm = {k: const_value(v) for k, v in dict_literal(find_assign(init, "self.particle_key_map").value, "particle_key_map").items()}
    dkm = {k: const_value(v) for k, v in dict_literal(find_assign(init, "self.decay_key_map").value, "decay_key_map").items()}
    # ---- particle export
    w = repo.fn(PART + "::BaseParticle.as_config")
    top_key, keys = interp_particle_export(repo)
    has_kwargs_export = "<kwargs>" in keys
    keys.pop("<kwargs>", None)
    ctor = ctor_param_chain(repo, CORE + "::Particle", PART + "::BaseParticle.__init__")
    gpf = repo.fn(CORE + "::get_particle")
    for p in gpf.all_param_names():
        ctor.setdefault(p, gpf.qual)
    bp = repo.fn(PART + "::BaseParticle.__init__")
    if not keys:
        raise AnalysisError("BaseParticle.as_config writes no constant keys")
    for k, v in sorted(keys.items()):
        if k in EXPORT_IGNORE:
            chk.instance("C-key", "particle export key %r ignored: %s" % (k, EXPORT_IGNORE[k]), nontrivial=False)
            continue
        canon = pkm.get(k, k)
        who = ctor.get(canon)
        chk.instance("C-key", "particle export %r: self.%s -> loader key %r -> parameter `%s` of %s" % (k, k, canon, canon, who or "NOBODY"))
        if who is None:
            chk.violation(
                "C-key", w.key, "key:%s" % k,
                "exported particle key %r (canonical %r) is not a parameter of the particle constructors: a reloaded export silently loses it" % (k, canon),
                file=PART, line=w.lineno,
            )
        if v != k:
            chk.violation("C-key", w.key, "value:%s" % k, "exported key %r carries `%s`, not self.%s" % (k, v, k), file=PART, line=w.lineno)
    for k in sorted(REQUIRED_PARTICLE_KEYS - set(keys)):
        chk.instance("C-key", "particle export must carry %r - MISSING" % k)
        chk.violation("C-key", w.key, "missing:%s" % k, "the particle export no longer carries %r" % k, file=PART, line=w.lineno)
    # constructor stores K under self.K
    stored = {}
    for n in walk_local(bp.node):
        if isinstance(n, ast.Assign) and len(n.targets) == 1 and isinstance(n.targets[0], ast.Attribute) and norm_text(n.targets[0].value) == "self":
            stored[n.targets[0].attr] = {x.id for x in ast.walk(n.value) if isinstance(x, ast.Name)}
    for k in sorted(set(keys) & REQUIRED_PARTICLE_KEYS):
        if k not in stored or k not in stored[k]:
            chk.violation("C-key", bp.key, "self.%s" % k, "BaseParticle.__init__ does not store parameter `%s` as self.%s, which the export reads" % (k, k), file=PART, line=bp.lineno)
    # extra keyword arguments travel both ways
    kw_stored = "_kwargs" in stored and (bp.node.args.kwarg and bp.node.args.kwarg.arg in stored["_kwargs"])
    chk.instance("C-key", "particle export spreads **self._kwargs: %s ; BaseParticle.__init__ stores its **kwargs there: %s" % (has_kwargs_export, bool(kw_stored)))
    if not (has_kwargs_export and kw_stored):
        chk.violation("C-key", w.key, "**_kwargs", "model-specific particle options are no longer carried by the export", file=PART, line=w.lineno)
    # the export is keyed by the particle name
    chk.instance("C-key", "BaseParticle.as_config interpreted on a symbolic particle named R: one entry keyed %r, %d option keys" % (top_key, len(keys)))
    if top_key != "R":
        chk.violation("C-key", w.key, "str(self)", "the particle export is no longer keyed by str(self)", file=PART, line=w.lineno)
    # ---- decay export
    wd = repo.fn(PART + "::BaseDecay.as_config")
    dtop, dnames, ddicts, ditems = interp_decay_export(repo)
    chk.instance("C-key", "BaseDecay.as_config interpreted on A -> B C: {%r: %r + %d option dict(s)}" % (dtop, dnames, len(ddicts)))
    if dtop != "A" or dnames != ["B", "C"] or len(ddicts) != 1 or ditems[:2] != ["B", "C"]:
        chk.violation("C-key", wd.key, "shape", "the decay export of A -> B C is %r, expected {'A': ['B', 'C', {options}]}" % ({dtop: ditems},), file=PART, line=wd.lineno)
    dkeys = {k: (str(v)[5:] if str(v).startswith("self.") else str(v)) for d_ in ddicts for k, v in d_.items()}
    dkeys.pop("<kwargs>", None)
    dctor = ctor_param_chain(repo, CORE + "::HelicityDecay", PART + "::BaseDecay.__init__")
    gd = repo.fn(CORE + "::get_decay")
    gd_reads = str_keys_read(gd)
    bd = repo.fn(PART + "::BaseDecay.__init__")
    dstored = {}
    for n in walk_local(bd.node):
        if isinstance(n, ast.Assign) and len(n.targets) == 1 and isinstance(n.targets[0], ast.Attribute) and norm_text(n.targets[0].value) == "self":
            dstored[n.targets[0].attr] = {x.id for x in ast.walk(n.value) if isinstance(x, ast.Name)}
    if not dkeys:
        raise AnalysisError("BaseDecay.as_config writes no constant keys")
    for k, v in sorted(dkeys.items()):
        canon = dkm.get(k, k)
        who = dctor.get(canon) or ("get_decay" if canon in gd_reads else None)
        chk.instance("C-key", "decay export %r: self.%s -> loader key %r -> parameter `%s` of %s" % (k, k, canon, canon, who or "NOBODY"))
        if who is None:
            chk.violation("C-key", wd.key, "key:%s" % k, "exported decay key %r is not a parameter of the decay constructors" % k, file=PART, line=wd.lineno)
        if v != k:
            chk.violation("C-key", wd.key, "value:%s" % k, "exported key %r carries `%s`, not self.%s" % (k, v, k), file=PART, line=wd.lineno)
        if k not in dstored or k not in dstored[k]:
            chk.violation("C-key", bd.key, "self.%s" % k, "BaseDecay.__init__ does not store parameter `%s` as self.%s" % (k, k), file=PART, line=bd.lineno)
    for k in sorted(REQUIRED_DECAY_KEYS - set(dkeys)):
        chk.instance("C-key", "decay export must carry %r - MISSING" % k)
        chk.violation("C-key", wd.key, "missing:%s" % k, "the decay export no longer carries %r" % k, file=PART, line=wd.lineno)
    # shape: {str(core): [str(out).., {options}]}  <-> _list2decay splits str / dict items
    l2d = repo.fn(DEC + "::DecayConfig._list2decay")
    has_dict_branch = any(
        isinstance(n, ast.If) and isinstance(n.test, ast.Call) and isinstance(n.test.func, ast.Name) and n.test.func.id == "isinstance"
        and len(n.test.args) == 2 and isinstance(n.test.args[1], ast.Name) and n.test.args[1].id == "dict"
        for n in walk_local(l2d.node)
    )
    chk.instance("C-key", "decay export appends one options dict to the daughters; _list2decay routes dict items to params: %s" % has_dict_branch)
    if not has_dict_branch:
        chk.violation("C-key", l2d.key, "isinstance(j, dict)", "_list2decay no longer separates option dicts from daughter names", file=DEC, line=l2d.lineno)
    # internal record written by _list2decay / read by get_decay_struct
    rec, _ = str_keys_written(l2d)
    gds = repo.fn(DEC + "::DecayConfig.get_decay_struct")
    rec_read = str_keys_read(gds)
    for k in sorted(rec):
        chk.instance("C-key", "_list2decay record key %r read by get_decay_struct as dec[%r]: %s" % (k, k, k in rec_read))
        if k not in rec_read:
            chk.violation("C-key", l2d.key, "record:%s" % k, "_list2decay writes %r but get_decay_struct never reads it" % k, file=DEC, line=l2d.lineno)
    for k in sorted({"core", "outs", "params"} - set(rec)):
        chk.violation("C-key", l2d.key, "record-missing:%s" % k, "_list2decay no longer writes %r, which get_decay_struct reads" % k, file=DEC, line=l2d.lineno)
    # the per-decay parameters reach get_decay: new_decay_params[dec_i] = dec["params"] ... add_decay(.., new_decay_params[dec]) -> get_decay(a, b, **params)
    ad = repo.fn(DEC + "::DecayConfig.get_decay_struct.add_decay")
    ok = any(
        isinstance(c, ast.Call) and isinstance(c.func, ast.Name) and c.func.id == "get_decay"
        and any(k.arg is None and isinstance(k.value, ast.Name) and k.value.id in ad.all_param_names() for k in c.keywords)
        for c in walk_local(ad.node)
    )
    chk.instance("C-key", "add_decay passes the option dict on as get_decay(a, b, **params): %s" % ok)
    if not ok:
        chk.violation("C-key", ad.key, "get_decay(**params)", "per-decay options no longer reach get_decay", file=DEC, line=ad.lineno)
    # ---- group export
    wg = repo.fn(PART + "::DecayGroup.as_config")
    ggot, gwant = interp_group_export(repo)
    chk.instance("C-key", "DecayGroup.as_config interpreted on a group of 2 chains / 3 decays / 2 resonances / 3 finals with the particle and decay exports as markers")
    if ggot != gwant:
        chk.violation("C-key", wg.key, "assembly", "the group export is %r, expected %r" % (ggot, gwant), file=PART, line=wg.lineno)
    gkeys = set(ggot) | set(ggot.get("particle", {}) if isinstance(ggot.get("particle"), dict) else ()) if isinstance(ggot, dict) else set()
    gkeys = {k for k in gkeys if k in REQUIRED_GROUP_KEYS or k not in ("R1", "R2")}
    readers = [init, repo.fn(DEC + "::DecayConfig.particle_item"), repo.fn(DEC + "::DecayConfig.particle_item_list"), repo.fn(DEC + "::DecayConfig.decay_item"), gds]
    read = set()
    for r in readers:
        read |= str_keys_read(r)
    for k in sorted(gkeys):
        chk.instance("C-key", "group export key %r read by the loader (%s): %s" % (k, "DecayConfig.__init__/particle_item", k in read))
        if k not in read:
            chk.violation("C-key", wg.key, "key:%s" % k, "exported section %r is read nowhere on the import path" % k, file=PART, line=wg.lineno)
    for k in sorted(REQUIRED_GROUP_KEYS - gkeys):
        chk.instance("C-key", "group export must carry %r - MISSING" % k)
        chk.violation("C-key", wg.key, "missing:%s" % k, "the group export no longer writes %r" % k, file=PART, line=wg.lineno)
    # `$top` / `$finals` given as dicts are merged into the particle table by particle_item
    pi = repo.fn(DEC + "::DecayConfig.particle_item")
    popped = {}  # local name -> popped key
    for n in walk_local(pi.node):
        if isinstance(n, ast.Assign) and len(n.targets) == 1 and isinstance(n.targets[0], ast.Name) and isinstance(n.value, ast.Call):
            c = n.value
            if isinstance(c.func, ast.Attribute) and c.func.attr in ("pop", "get") and c.args and isinstance(const_value(c.args[0]), str):
                popped[n.targets[0].id] = const_value(c.args[0])
    merged = set()
    for c in walk_local(pi.node):
        if isinstance(c, ast.Call) and isinstance(c.func, ast.Attribute) and c.func.attr == "update" and len(c.args) == 1 and isinstance(c.args[0], ast.Name):
            if c.args[0].id in popped:
                merged.add(popped[c.args[0].id])
    # by interpretation first: a card whose $top / $finals are dicts (the export's form) - what the particle table holds
    try:
        import sympy as _sp3

        from ..sym import Translator as _Tr3

        def _isinst3(tr_, args, kwargs, node):
            names = {x.id for x in ast.walk(node.args[1]) if isinstance(x, ast.Name)} if len(node.args) > 1 else set()
            table = {"list": list, "dict": dict, "str": str}
            return any(nm in table and isinstance(args[0], table[nm]) for nm in names)

        card = {"$top": {"A": {"J": _sp3.Integer(1)}}, "$finals": {"B": {"J": _sp3.Integer(0)}, "C": {"J": _sp3.Integer(0)}}, "R": ["R1"], "R1": {"J": _sp3.Integer(2)}}
        out3 = _Tr3(repo, hooks={"builtin.isinstance": _isinst3, "allow_attr_store": True, "allow_raise": True}, max_depth=3).call_fn(pi, [card])
        props3 = out3[1] if isinstance(out3, tuple) and len(out3) >= 2 and isinstance(out3[1], dict) else None
        if props3 is not None:
            merged = set()
            if "A" in props3:
                merged.add("$top")
            if "B" in props3 and "C" in props3:
                merged.add("$finals")
    except Exception as e3:
        chk.info("C-key: particle_item not interpreted (%s); the merge is read off its statements" % str(e3)[:80])
    chk.instance("C-key", "particle_item merges dict-valued sections into the particle table: %s" % sorted(merged))
    for need in ("$top", "$finals"):
        if need not in merged:
            chk.violation("C-key", pi.key, "merge:%s" % need, "a dict-valued `%s` (the export's form) is no longer merged into the particle table" % need, file=DEC, line=pi.lineno)
    # not exported: model / constructor-level options (INFO: outside 'chains and quantum numbers')
    pm = repo.cls(CORE + "::Particle").methods.get("__init__")
    if pm is not None:
        lost = [p for p in pm.all_param_names()[1:]]
        chk.info(
            "not carried by the export (outside 'same chains and quantum numbers'): the particle `model` name (consumed by get_particle) and "
            "Particle.__init__'s own options %s, which are consumed before BaseParticle stores **kwargs" % lost
        )
    chk.require_count("C-key", 20)


# ------------------------------------------------------------------ fixtures
def _fixture(chk):
    here = os.path.join(os.path.dirname(os.path.dirname(os.path.abspath(__file__))), "fixtures", "c19")
    if not os.path.isdir(here):
        raise AnalysisError("fixture directory %s missing" % here)
    frepo = Repo(here, package="tf_pwa")
    ta, results = analyse_order(frepo, ["tf_pwa/order.py"])
    got = {}
    for f, status, kind, var, e, text in results:
        if status == "sink":
            got.setdefault(f.qual, set()).add(kind.split(":")[0])
        else:
            got.setdefault(f.qual, set())
    m = frepo.mod("tf_pwa/order.py")
    for q in m.funcs:
        got.setdefault(q, set())
    expect = {
        "bad_names_from_set": {"loop"},
        "bad_first_of_set": {"index"},
        "bad_unsorted_difference": {"return"},
        "bad_pop": {"pop"},
        "bad_next_iter": {"next"},
        "bad_join": {"string"},
        "bad_init_in_set_order": {"loop"},
        "bad_via_helper": {"loop"},
        "bad_dict_filled_in_set_order": {"loop"},
        "bad_sorted_with_key": {"return"},
        "bad_attr": {"loop"},
        "bad_sequence_equality": {"compare"},
        "good_set_equality": set(),
        "good_sorted_difference": set(),
        "good_membership_only": set(),
        "good_set_insertion_loop": set(),
        "good_flag_loop": set(),
        "good_len_and_min": set(),
        "good_setcomp": set(),
    }
    for k, v in expect.items():
        if got.get(k) != v:
            raise AnalysisError("C19 fixture %s: expected sinks %s, analysis says %s" % (k, sorted(v), sorted(got.get(k, ["<absent>"]))))
    chk.instance("E4-site", "fixture: %d positive/negative examples classified as expected" % len(expect), nontrivial=False)


def run_isolation(repo, chk):
    """seed-driven clauses: the loader never mutates the caller's configuration; the export is not value-filtered"""
    chk.rule("D-copy", "DecayConfig.load_config hands out a deep copy of a dict it is given (the include machinery updates nested entries of what it returns in place; a shallow copy lets one configuration's overrides leak into the shared table and into later loads)")
    chk.rule("D-export", "as_config writes its option keys unconditionally (no filtering by truthiness: c_break defaults to True, so dropping a False value changes the selection rules on re-import)")
    lc = repo.fn(DEC + "::DecayConfig.load_config")
    inc = repo.fn(DEC + "::DecayConfig._do_include_dict")
    mutates = any(
        isinstance(n, ast.Call) and isinstance(n.func, ast.Attribute) and n.func.attr in ("update", "setdefault", "pop") and isinstance(n.func.value, ast.Subscript)
        for n in walk_local(inc.node)
    ) or any(isinstance(n, ast.Assign) and isinstance(n.targets[0], ast.Subscript) and isinstance(n.targets[0].value, ast.Subscript) for n in walk_local(inc.node))
    ret_ok = None
    param = lc.all_param_names()[0]
    # by interpretation first: a nested table goes in, what comes out shares no container with it
    try:
        import sympy as _sp2

        from ..sym import Translator as _Tr2, Unmodelled as _Un2

        def _isinst(tr_, args, kwargs, node):
            names = {x.id for x in ast.walk(node.args[1]) if isinstance(x, ast.Name)} if len(node.args) > 1 else set()
            table = {"list": list, "dict": dict, "str": str}
            return any(nm in table and isinstance(args[0], table[nm]) for nm in names)

        nested = {"R": {"J": _sp2.Integer(1), "sub": {"k": [_sp2.Integer(1), _sp2.Integer(2)]}}, "S": [_sp2.Integer(3)]}
        out_ = _Tr2(repo, hooks={"builtin.isinstance": _isinst, "allow_attr_store": True}, max_depth=3).call_fn(lc, [nested], self_obj=None) if "self" not in lc.all_param_names() else None
        if isinstance(out_, dict):
            shares = out_ is nested or out_.get("R") is nested["R"] or (isinstance(out_.get("R"), dict) and out_["R"].get("sub") is nested["R"]["sub"]) or out_.get("S") is nested["S"]
            same = isinstance(out_.get("R"), dict) and out_["R"].get("J") == nested["R"]["J"] and isinstance(out_["R"].get("sub"), dict) and list(out_["R"]["sub"].get("k", [])) == list(nested["R"]["sub"]["k"])
            ret_ok = (not shares) and same
            ret_text = "a table that %s" % ("shares no container with the argument" if ret_ok else "shares a container with the argument" if shares else "differs from the argument")
            # the same through the in-memory include table: load_config("name", share_dict={"name": table})
            if ret_ok and "share_dict" in lc.all_param_names():
                nested2 = {"R": {"J": _sp2.Integer(1), "sub": {"k": [_sp2.Integer(1)]}}}
                out2 = _Tr2(repo, hooks={"builtin.isinstance": _isinst, "allow_attr_store": True}, max_depth=4).call_fn(lc, ["resonances"], {"share_dict": {"resonances": nested2}})
                if isinstance(out2, dict):
                    shares2 = out2 is nested2 or out2.get("R") is nested2["R"] or (isinstance(out2.get("R"), dict) and out2["R"].get("sub") is nested2["R"]["sub"])
                    if shares2:
                        ret_ok = False
                        ret_text = "the caller's own share_dict entry (for an include name found in share_dict)"
    except Exception as e_:   # not interpretable: the statement-level rule below decides
        chk.info("D-copy: load_config(dict) not interpreted (%s); decided on the return statement" % str(e_)[:80])
        ret_ok = None
    for n in (walk_local(lc.node) if ret_ok is None else []):
        if isinstance(n, ast.If) and "isinstance(%s, dict)" % param in norm_text(n.test):
            for r in [x for st in n.body for x in ast.walk(st) if isinstance(x, ast.Return)]:
                v = r.value
                deep = isinstance(v, ast.Call) and norm_text(v.func).split(".")[-1] in ("deepcopy", "simple_deepcopy") and v.args and norm_text(v.args[0]) == param
                deep = deep or (isinstance(v, ast.Call) and norm_text(v.func) in ("json.loads", "yaml.safe_load") and v.args and isinstance(v.args[0], ast.Call) and param in norm_text(v.args[0]))
                ret_ok = deep
                ret_text = norm_text(v)
    if ret_ok is None:
        raise AnalysisError("DecayConfig.load_config: dict branch not found")
    chk.instance("D-copy", "load_config(dict) returns `%s` (deep copy: %s); _do_include_dict updates nested entries in place: %s" % (ret_text, ret_ok, mutates))
    if mutates and not ret_ok:
        chk.violation("D-copy", lc.key, "dict-branch", "load_config returns `%s` for a dict argument - not a deep copy - while _do_include_dict updates nested entries of the result in place: overrides leak into the caller's / shared configuration and later loads differ" % ret_text, file=DEC, line=lc.lineno)
    # export not filtered by value
    n = 0
    PAR = "tf_pwa/particle.py"
    for key in (PAR + "::BaseParticle.as_config", PAR + "::BaseDecay.as_config", PAR + "::DecayGroup.as_config"):
        f = repo.fn(key)
        bad = None
        for x in walk_local(f.node):
            if isinstance(x, (ast.DictComp, ast.ListComp, ast.GeneratorExp)) and any(g.ifs for g in x.generators):
                # a filter on the *values* of the exported mapping
                for g in x.generators:
                    if g.ifs and ("items()" in norm_text(g.iter) or "values()" in norm_text(g.iter)):
                        bad = x
            if isinstance(x, ast.If) and any(isinstance(y, ast.Delete) or (isinstance(y, ast.Call) and isinstance(y.func, ast.Attribute) and y.func.attr == "pop") for st in x.body for y in ast.walk(st)):
                bad = x
        n += 1
        chk.instance("D-export", "%s: option values exported unconditionally: %s" % (key, bad is None))
        if bad is not None:
            chk.violation("D-export", key, "filtered", "the exported mapping is filtered by value (`%s`): an option whose value is falsy but differs from its default (c_break: False) is dropped and the re-imported structure applies other selection rules" % norm_text(bad)[:100], file=PAR, line=bad.lineno)
    chk.require_count("D-export", 3)


def run_empty_candidates(repo, chk):
    """an empty candidate list switches a slot off: the writer stores [] explicitly, so no reader may test the
    looked-up list by truthiness (that reads 'empty' as 'missing' and falls back to the slot name as a particle)"""
    from ..model import parent_map

    chk.rule("D-empty", "particle_item_list stores an empty candidate list as [] and every reader of particle_map distinguishes empty from missing (no `.get(k) or default`, no truthiness test of the looked-up list)")
    w = repo.fn(DEC + "::DecayConfig.particle_item_list")
    # writer side, by interpretation: an empty candidate list is recorded as [] (not left out), mixed with ordinary slots
    import sympy as _sp

    from ..sym import Translator, Unmodelled

    def isinst(tr_, args, kwargs, node):
        names = {x.id for x in ast.walk(node.args[1]) if isinstance(x, ast.Name)} if len(node.args) > 1 else set()
        table = {"list": list, "dict": dict, "str": str}
        return any(nm in table and isinstance(args[0], table[nm]) for nm in names)

    tr = Translator(repo, hooks={"builtin.isinstance": isinst, "allow_attr_store": True, "allow_raise": True}, max_depth=3)
    card = {"R_BC": [], "R_BD": ["X1", "X2"], "R_CD": [{"R_CD": ["Y1"], "Y1": {"J": _sp.Integer(1)}}], "X1": {"J": _sp.Integer(0)}}
    try:
        out = tr.call_fn(w, [card])
    except Unmodelled as e:
        raise AnalysisError("particle_item_list cannot be interpreted: %s" % e)
    if not (isinstance(out, tuple) and len(out) == 2 and isinstance(out[0], dict)):
        raise AnalysisError("particle_item_list no longer returns (particle_map, particle_property)")
    pmap = out[0]
    stores_empty = "R_BC" in pmap and list(pmap["R_BC"]) == [] and list(pmap.get("R_BD", [])) == ["X1", "X2"] and list(pmap.get("R_CD", [])) == ["Y1"]
    chk.oblige("D-empty", "particle_item_list({R_BC: [], R_BD: [X1, X2], R_CD: [{...}], ...}) == {R_BC: [], R_BD: [X1, X2], R_CD: [Y1]}", stores_empty)
    if not stores_empty:
        chk.violation("D-empty", w.key, "writer", "particle_item_list maps the card {R_BC: [], R_BD: [X1, X2], R_CD: [{R_CD: [Y1]}]} to %s: a slot with an empty candidate list must be recorded as [] - a missing entry makes the readers fall back to a particle named after the slot, i.e. the switched-off chain comes back with an undeclared default particle" % ({k: list(v) for k, v in pmap.items()},), file=DEC, line=w.lineno)
    m = repo.mod(DEC)
    n_reads = 0
    for f in m.funcs.values():
        pm = parent_map(f.node)
        for n in walk_local(f.node):
            is_get = isinstance(n, ast.Call) and isinstance(n.func, ast.Attribute) and n.func.attr == "get" and norm_text(n.func.value).split(".")[-1] == "particle_map"
            is_sub = isinstance(n, ast.Subscript) and isinstance(n.ctx, ast.Load) and norm_text(n.value).split(".")[-1] == "particle_map"
            if not (is_get or is_sub):
                continue
            n_reads += 1
            par = pm.get(n)
            truthy = None
            if isinstance(par, ast.BoolOp):
                truthy = "operand of `%s`" % ("or" if isinstance(par.op, ast.Or) else "and")
            elif isinstance(par, ast.UnaryOp) and isinstance(par.op, ast.Not):
                truthy = "operand of `not`"
            elif isinstance(par, (ast.If, ast.While, ast.IfExp)) and par.test is n:
                truthy = "test of `%s`" % type(par).__name__.lower()
            chk.instance("D-empty", "%s:%d reads `%s`%s" % (f.qual, n.lineno, norm_text(n), " in a truthiness context (%s)" % truthy if truthy else ""))
            if truthy:
                chk.violation("D-empty", f.key, "truthy-read:%s" % norm_text(n), "`%s` is used as %s: an empty candidate list (slot switched off) is read as a missing entry, and the slot name itself becomes a particle of the chains" % (norm_text(n), truthy), file=DEC, line=n.lineno)
    if n_reads < 1:
        # (the writer is decided by interpretation; of the readers at least the one that expands a slot must exist)
        raise AnalysisError("D-empty: only %d reads of particle_map found in %s" % (n_reads, DEC))


def run_include_and_dedup(repo, chk):
    """round-3 seeds: (I-merge) a local override of an included particle wins under every alias spelling;
    (D-dedup) a decay registers with its mother once however often it is listed"""
    import sympy as sp

    from ..sym import SelfObj, Translator, Unmodelled
    chk.rule("I-merge", "_do_include_dict interpreted with the included card as a literal: the merged entry lists the included keys first and the local ones last with the local value for a common key, so that rename_params (last key wins per canonical name) gives the local value whichever alias either side uses; entries only one side has are kept")
    chk.rule("D-dedup", "BaseParticle.add_decay is idempotent: a decay listed twice (repeated in a card, or exported once per chain and re-loaded) is registered once")
    dcls = repo.cls(DEC + "::DecayConfig")
    inc = dcls.methods.get("_do_include_dict")
    rp = dcls.methods.get("rename_params")
    if inc is None or rp is None:
        raise AnalysisError("anchor vanished: DecayConfig._do_include_dict / rename_params")
    init = repo.fn(DEC + "::DecayConfig.__init__")
    pkm = {k: const_value(v) for k, v in dict_literal(find_assign(init, "self.particle_key_map").value, "particle_key_map").items()}
    L = {k: sp.Symbol("local_" + k) for k in ("w", "m", "x", "only")}
    S = {k: sp.Symbol("incl_" + k) for k in ("w", "m", "J", "T")}
    cases = [
        ("local g0 / included width", {"R": {"g0": L["w"]}}, {"R": {"width": S["w"], "mass": S["m"], "J": S["J"]}}),
        ("local width / included g0", {"R": {"width": L["w"]}}, {"R": {"g0": S["w"], "m0": S["m"]}}),
        ("same spelling", {"R": {"mass": L["m"]}, "Q": {"J": L["only"]}}, {"R": {"mass": S["m"], "width": S["w"]}, "T": {"J": S["T"]}}),
    ]
    bad = None
    for label, local, included in cases:
        d = {k: dict(v) for k, v in local.items()}
        hooks = {dcls.methods["load_config"].key: lambda tr_, a_, k_, n_, inc_=included: {k: dict(v) for k, v in inc_.items()}, "builtin.isinstance": lambda tr_, a_, k_, n_: isinstance(a_[0], dict)}
        tr = Translator(repo, hooks=hooks, max_depth=2)
        try:
            tr.call_fn(inc, [d, "other.yml"])
            merged = {k: tr.call_fn(rp, [dict(v)], {}, self_obj=SelfObj(dcls, {"particle_key_map": dict(pkm), "decay_key_map": {}})) for k, v in d.items() if isinstance(v, dict)}
        except Unmodelled as e:
            raise AnalysisError("_do_include_dict / rename_params cannot be interpreted: %s" % e)
        want = {}
        for name in list(included) + [k for k in local if k not in included]:
            ent = {}
            for k, v in list(included.get(name, {}).items()) + list(local.get(name, {}).items()):
                ent[pkm.get(k, k)] = v
            want[name] = ent
        if merged != want and bad is None:
            bad = "%s: after the include the particles read %s, expected %s (local definitions win, included entries fill the rest)" % (label, merged, want)
    chk.oblige("I-merge", "3 include cases (alias spellings differ / agree, entries on one side only)", bad is None)
    if bad:
        chk.violation("I-merge", inc.key, "override", bad, file=DEC, line=inc.lineno)
    # D-dedup
    pc = repo.cls(PART + "::BaseParticle")
    ad = pc.methods.get("add_decay")
    if ad is None:
        raise AnalysisError("anchor vanished: BaseParticle.add_decay")
    so = SelfObj(pc, {"decay": ["d1"]})
    tr = Translator(repo, max_depth=1)
    try:
        tr.call_fn(ad, ["d1"], {}, self_obj=so)
        tr.call_fn(ad, ["d2"], {}, self_obj=so)
        tr.call_fn(ad, ["d2"], {}, self_obj=so)
    except Unmodelled as e:
        raise AnalysisError("BaseParticle.add_decay cannot be interpreted: %s" % e)
    ok = so.attrs["decay"] == ["d1", "d2"]
    chk.oblige("D-dedup", "add_decay(d1), add_decay(d2), add_decay(d2) on [d1] gives %s" % (so.attrs["decay"],), ok)
    if not ok:
        chk.violation("D-dedup", ad.key, "idempotent", "registering a decay that is already listed gives %s: a decay shared by several chains is exported once per chain, so every re-load multiplies the chains" % (so.attrs["decay"],), file=PART, line=ad.lineno)


def run_add_decay(repo, chk):
    """a particle registers each of its decays once, however many equal decay objects the loader builds (the export
    writes one entry per chain, so a decay shared by several cascades is declared several times)"""
    from ..sym import SelfObj, Translator, Unmodelled
    from .c14 import TokD, TokP
    PARF = "tf_pwa/particle.py"
    chk.rule("D-once", "BaseParticle.add_decay interpreted with equal but distinct decay objects (same mother and daughters, daughters also in the other order): the particle lists the decay once - a card that declares a decay several times (every export of a cascade does) must not enumerate its chains repeatedly")
    cls = repo.cls(PARF + "::BaseParticle")
    fn = cls.methods.get("add_decay")
    if fn is None:
        raise AnalysisError("anchor vanished: BaseParticle.add_decay")
    A, B, C, D = TokP("A"), TokP("B"), TokP("C"), TokP("D")
    d1, d2, d3, e1 = TokD(A, (B, C)), TokD(A, (B, C)), TokD(A, (C, B)), TokD(A, (B, D))
    so = SelfObj(cls, {"decay": []})
    tr = Translator(repo, hooks={"allow_attr_store": True}, max_depth=2)
    try:
        for d in (d1, d2, d3, e1, d1):
            tr.call_fn(fn, [d], self_obj=so)
    except Unmodelled as e:
        raise AnalysisError("BaseParticle.add_decay cannot be interpreted: %s" % e)
    got = list(so.attrs["decay"])
    ok = len(got) == 2 and got[0] == d1 and got[1] == e1
    chk.oblige("D-once", "add_decay(A->B+C) x2, add_decay(A->C+B), add_decay(A->B+D), add_decay(A->B+C): decays == [A->B+C, A->B+D]", ok)
    if not ok:
        chk.violation("D-once", fn.key, "duplicate", "after registering A->B+C three times (two equal objects and one with the daughters swapped) and A->B+D once the particle lists %s: a decay declared more than once - as in every exported cascade - multiplies the chains built from it" % (got,), file=PARF, line=fn.lineno)


def run_normalised_reads(repo, chk):
    """mass / width settings have documented aliases (m0, g0, m_min, g_max ...): add_particle_constraints rewrites them
    into one table; what it then reads about mass and width comes from that table, not from the raw card entry"""
    LOADER = "tf_pwa/config_loader/config_loader.py"
    fn = repo.fn(LOADER + "::ConfigLoader.add_particle_constraints")
    chk.rule("B-normal", "ConfigLoader.add_particle_constraints: after the alias rewrite (`<table>[prefix_map[p] + rest] = <raw entry>[name]`) every later read of a mass / width key (mass, width, mass_min, mass_max, width_min, width_max ...) goes to the rewritten table: a read from the raw card entry sees only the long spelling, so the alias form (m_min / g_max, or limits under `params:`) would get no range")
    target = source = None
    vals = set()
    for n in walk_local(fn.node):
        if isinstance(n, ast.Assign) and len(n.targets) == 1 and isinstance(n.targets[0], ast.Name) and n.targets[0].id == "prefix_map" and isinstance(n.value, ast.Dict):
            vals = {const_value(v) for v in n.value.values if isinstance(const_value(v), str)}
        if isinstance(n, ast.Assign) and len(n.targets) == 1 and isinstance(n.targets[0], ast.Subscript) and isinstance(n.targets[0].value, ast.Name) and isinstance(n.value, ast.Subscript) and isinstance(n.value.value, ast.Name) and isinstance(n.targets[0].slice, ast.Name):
            # the rewritten key is built from prefix_map - directly (prefix_map[p] + ..) or through the loop variables
            # of `for p, target in prefix_map.items()`
            pm_names = {"prefix_map"}
            for lp in walk_local(fn.node):
                if isinstance(lp, ast.For) and any(isinstance(x, ast.Name) and x.id == "prefix_map" for x in ast.walk(lp.iter)):
                    pm_names |= {x.id for x in ast.walk(lp.target) if isinstance(x, ast.Name)}
            if any(isinstance(x, ast.Name) and x.id in pm_names for st in walk_local(fn.node) if isinstance(st, ast.Assign) and st.targets and isinstance(st.targets[0], ast.Name) and st.targets[0].id == n.targets[0].slice.id for x in ast.walk(st.value)):
                target, source, rewrite_line = n.targets[0].value.id, n.value.value.id, n.lineno
    if not vals or target is None:
        raise AnalysisError("add_particle_constraints: the alias rewrite `<table>[prefix_map[..] + ..] = <entry>[name]` was not found")
    stems = sorted({v.rstrip("_") for v in vals})
    bad = []
    n_reads = 0
    for n in walk_local(fn.node):
        if getattr(n, "lineno", 0) <= rewrite_line:
            continue
        key = cont = None
        if isinstance(n, ast.Subscript) and isinstance(n.ctx, ast.Load) and isinstance(n.value, ast.Name):
            key, cont = const_value(n.slice), n.value.id
        elif isinstance(n, ast.Compare) and len(n.ops) == 1 and isinstance(n.ops[0], (ast.In, ast.NotIn)) and isinstance(n.comparators[0], ast.Name):
            key, cont = const_value(n.left), n.comparators[0].id
        elif isinstance(n, ast.Call) and isinstance(n.func, ast.Attribute) and n.func.attr == "get" and isinstance(n.func.value, ast.Name) and n.args:
            key, cont = const_value(n.args[0]), n.func.value.id
        if isinstance(key, str) and any(key == st_ or key.startswith(st_ + "_") for st_ in stems) and cont in (target, source):
            n_reads += 1
            if cont == source:
                bad.append((key, n.lineno))
    chk.oblige("B-normal", "add_particle_constraints: %d reads of mass / width keys after the alias rewrite, all from `%s` (raw entry: `%s`)" % (n_reads, target, source), not bad)
    for key, line in bad[:2]:
        chk.violation("B-normal", fn.key, "raw-read:%s" % key, "`%s` is looked up in the raw card entry `%s` (line %d) instead of the alias-normalised table `%s`: written with its documented alias (or under `params:`) the setting is not found, e.g. a floated mass loses its range (None, None)" % (key, source, line, target), file=LOADER, line=line)
    if n_reads < 4:
        raise AnalysisError("B-normal: only %d reads of mass / width keys found after the alias rewrite" % n_reads)


def run(repo, chk, tier):
    from ..cacheown import check_persistent_state

    check_persistent_state(repo, chk, ["tf_pwa/config_loader/decay_config.py", "tf_pwa/config_loader/config_loader.py", "tf_pwa/config_loader/base_config.py"])
    from ..cacheown import check_mutable_defaults

    check_mutable_defaults(repo, chk, ["tf_pwa/config_loader/", "tf_pwa/particle.py"])
    chk.rule(
        "E4",
        "no iteration order of a set (S), of a dict filled in set order (M) or of a sequence derived from one (U) reaches "
        "an order-sensitive use (index / pop / next / order-sensitive loop body / return / attribute store / argument escape / "
        "string building / unpacking) without sorted(); frozen benign exceptions carry a structural guard",
    )
    chk.rule("E4-site", "one instance per set-typed source and per use of a set-ordered value in the five files of the loading path")
    chk.rule("B-alias", "particle_key_map holds the documented aliases, rename_params applies it before the particle is built, prefix_map / simple_map agree with it")
    chk.rule("B-target", "every alias target is an explicit parameter of the particle / decay constructors and is stored under the attribute of the same name")
    chk.rule("C-key", "every exported key is consumed by name on the import path, the export carries the quantum numbers, key K exports self.K which the constructor stored from parameter K")
    chk.assume("str / particle / decay objects hash through str hashes (randomised per process); ints hash by value")
    chk.assume("dict iteration follows insertion order (CPython >= 3.7); only set-derived order is process dependent")
    chk.assume("methods named get/items/keys/values/startswith/... are the builtin ones (no side effects)")
    for rel in FILES:
        repo.mod(rel)
    run_order(repo, chk)
    run_alias(repo, chk)
    run_export(repo, chk)
    run_isolation(repo, chk)
    run_empty_candidates(repo, chk)
    run_include_and_dedup(repo, chk)
    run_add_decay(repo, chk)
    run_normalised_reads(repo, chk)
    from ..cacheown import check_cache_ownership

    # memoised chain/decay structure (ls lists, ids, sorted tables, swap maps) is shared between loads
    check_cache_ownership(repo, chk, ["tf_pwa/particle.py", "tf_pwa/amp/core.py"], 12, 30)
    _fixture(chk)
