"""C01 - the density is independent of the observer's frame: necessary conditions visible in the code.

The invariance itself is a numerical statement about a continuous group acting on run-time tensors and is NOT
decided.  Decided are the conditions each of the property's three mechanisms rests on; breaking any of them breaks
the invariance for some event, while none of them is exercised by the baseline tests:

  N-sq       finite / non-negative: sum_amp and sum_with_polarization (unpolarised) return sum |A|^2 over all
             helicity indices - a sum of squares of real and imaginary parts (exact identity on a symbolic amplitude
             tensor), every helicity axis summed
  mechanism 1 "all momenta are boosted chain-wise into the mother rest frame before angles are taken":
             T-frame (frame typing of every rest_vector call in cal_chain_boost / cal_single_boost) and the boost
             identities (mass and Minkowski products invariant, boost matrix == vector boost, rest_vector == boost
             by -p/E) - shared with C11
  mechanism 2 helicity angles depend on directions only through scalar and cross products: the extractor
             angle_zx_z_getx recovers (phi, theta) of a momentum given in the frame (z1, x1), also for an x1 that is
             not perpendicular to z1 (the random_z / moving-parent case), and the frames it hands down are the
             recorded ones - E6-helicity, shared with C11
  mechanism 3 "unitarity of conjugated Wigner D-matrices makes the helicity sum rotation invariant":
             small_d_matrix / D_matrix_conj equal the exact Wigner matrices and the delta-index gather hands the
             amplitudes conj D_{la, lb-lc} - E6-wigner, E6-Dconj, E6-gather, shared with C12
             plus the index-order discipline of the custom contraction that sums the inner helicities (shared with C05)
Not decided: invariance under a common rotation/boost as such, parity, identical-particle exchange.
"""
import ast

import numpy as np
import sympy as sp

from ..model import AnalysisError, norm_text, walk_local
from ..sym import SelfObj, Translator, Unmodelled, equal

LEVEL = "proof"
CORE = "tf_pwa/amp/core.py"


def run(repo, chk, tier):
    from .c01_swap import check_swap_transpose

    check_swap_transpose(repo, chk)
    from .c01_domain import check_acos_domain

    check_acos_domain(repo, chk)
    # the helicity axes the einsum contracts are named per chain (amp_index(base_map)): a memo that ignores its
    # argument would freeze the names of the first chain (shared with C04 / C05 / C14 / C15)
    from ..cacheown import check_memo_soundness

    check_memo_soundness(repo, chk)
    chk.trusted_base[:] = ["AST->sympy translator sa/sym.py (tensor component model)", "sympy ring normaliser", "checker's Wigner reference (cross-checked against sympy)"]
    chk.info("not decided: the invariance of the density under a common rotation / boost / inversion / exchange itself (numerical); decided are necessary conditions of the three mechanisms the property names")
    nonneg(repo, chk)
    from . import c11
    from .c12_wigner import check_gather, check_wigner

    c11.run(repo, chk, tier, parts=("boost", "helicity", "frame"))
    check_wigner(repo, chk, "quick")
    check_gather(repo, chk)
    # the helicity sum over the inner indices of a chain is computed by the library's own contraction routine
    from .c05 import clause_a2

    clause_a2(repo, chk)
    # which frame / alignment convention is applied is chosen by options (random_z, r_boost, center_mass ...); the
    # direct and the identical-particle-exchanged term must be given the same ones, and the azimuth bookkeeping of the
    # alignment must hold for every daughter: the forwarding and reference clauses of C02, shared
    from . import c02

    c02.run(repo, chk, tier)


def nonneg(repo, chk):
    chk.rule("N-sq", "the unpolarised density is sum over every helicity index of |A|^2 = Re(A)^2 + Im(A)^2 (sum_amp and the unpolarised branch of sum_with_polarization; exact identity on a symbolic amplitude tensor)")
    cls = repo.cls(CORE + "::DecayGroup")
    # symbolic amplitude: one event, helicity axes (2, 3)
    xs = np.empty((1, 2, 3), dtype=object)
    want = sp.Integer(0)
    for i in range(2):
        for j in range(3):
            re, im = sp.Symbol("re%d%d" % (i, j), real=True), sp.Symbol("im%d%d" % (i, j), real=True)
            xs[0, i, j] = re + sp.I * im
            want += re ** 2 + im ** 2
    for mname, args, hookget in (("sum_amp", [sp.Symbol("data")], True), ("sum_with_polarization", [xs], False)):
        fn = cls.methods.get(mname)
        if fn is None:
            raise AnalysisError("anchor vanished: DecayGroup.%s" % mname)
        hooks = {"allow_shape": True, "stack_as_array": True}
        if hookget:
            hooks[CORE + "::DecayGroup.get_amp3"] = lambda tr, a, k, n: xs
        tr = Translator(repo, hooks=hooks, max_depth=3)
        so = SelfObj(cls, {"polarization": "none"})
        try:
            out = tr.call_fn(fn, args, self_obj=so)
        except Unmodelled as e:
            raise AnalysisError("DecayGroup.%s not translatable: %s" % (mname, e))
        val = np.asarray(out, dtype=object).reshape(-1)
        ok = len(val) == 1 and equal(sp.sympify(val[0]), want)[0] is True
        chk.oblige("N-sq", "DecayGroup.%s (unpolarised) == sum_{helicities} Re(A)^2 + Im(A)^2 (one value per event)" % mname, ok)
        if not ok:
            chk.violation("N-sq", fn.key, "sum-of-squares", "the unpolarised density returned by %s is %s, not the sum over all helicity components of |A|^2" % (mname, list(val)[:2]), file=CORE, line=fn.lineno)
