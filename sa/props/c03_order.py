"""Clause B-order (C03, shared with C04 / C05): the per-chain lists of a decay group follow the chain selection.

DecayGroup.get_m_dep / get_factor_angle_amp / get_angle_amp return one entry per used chain.  Their callers pair the
lists position by position (zip) with each other and with lists indexed by `chains_idx`, so every one of them must
list the chains in the order of `chains_idx` - not grouped by topology, not in declaration order.

Each traversal is interpreted on a group of three chains whose topologies interleave (X, Y, X) for the selections
[0, 1, 2], [2, 0] and [1, 2, 0]; the per-chain evaluators, the chain maps (grouped by topology, as get_chains_map
returns them) and the renaming helper are probes.  Decided: entry k of the result was computed by chain
chains_idx[k], with that chain's own particle map and the event data of that chain's topology."""
import sympy as sp

from ..model import AnalysisError
from ..sym import PyFunc, Raised, SelfObj, Translator, Unmodelled

CORE = "tf_pwa/amp/core.py"
METHODS = ["get_m_dep", "get_factor_angle_amp", "get_angle_amp"]


class _Chain(str):
    tok_attrs = None


def check_selection_order(repo, chk, rule="B-order"):
    chk.rule(rule, "DecayGroup.get_m_dep / get_factor_angle_amp / get_angle_amp interpreted on three chains with interleaved topologies (X, Y, X) and the selections [0, 1, 2], [2, 0], [1, 2, 0] (per-chain evaluators, topology-grouped chain maps and the renaming helper as probes): entry k is computed by chain chains_idx[k] with its own map and the data of its own topology - callers zip these lists with each other and with lists indexed by chains_idx")
    cls = repo.cls(CORE + "::DecayGroup")
    n = 0
    for name in METHODS:
        fn = cls.methods.get(name)
        if fn is None:
            raise AnalysisError("anchor vanished: DecayGroup.%s" % name)
        bad = None
        # get_angle_amp is the single-chain accessor (build_angle_amp_matrix selects one chain at a time and takes the
        # value it returns): decided for the one-chain selections
        single = name == "get_angle_amp"
        for sel in (([1], [2], [0]) if single else ([0, 1, 2], [2, 0], [1, 2, 0])):
            topo = {0: "topoX", 1: "topoY", 2: "topoX"}
            chains = []
            for k in range(3):
                c = _Chain("chain%d" % k)

                def ev(tag, c_=c):
                    return PyFunc(lambda *a, **kw: ("value", tag, str(c_), a[0] if a else kw.get("data_c")))
                c.tok_attrs = {"standard_topology": PyFunc(lambda k_=k: topo[k_]), "get_m_dep": ev("get_m_dep"), "get_factor_angle_amp": ev("get_factor_angle_amp"), "get_angle_amp": ev("get_angle_amp"), "get_amp": ev("get_amp")}
                chains.append(c)
            maps = {c: ("map", str(c)) for c in chains}

            def chains_map(tr, args, kwargs, node):
                req = [x for x in args if isinstance(x, (list, tuple))]
                req = list(req[0]) if req else list(chains)
                out = []
                for t in ("topoX", "topoY"):   # grouped by topology class, as get_chains_map returns them
                    grp = {c: maps[c] for c in req if topo[chains.index(c)] == t}
                    if grp:
                        out.append(grp)
                return out

            hooks = {"allow_attr_store": True, "allow_raise": True}
            for g in repo.func_by_name.get("get_chains_map", []):
                if g.cls is not None:
                    hooks[g.key] = chains_map
            for g in repo.func_by_name.get("get_base_map", []):
                if g.cls is not None:
                    hooks[g.key] = lambda tr, args, kwargs, node: "base_map"
            for g in repo.func_by_name.get("rename_data_dict", []):
                hooks[g.key] = lambda tr, args, kwargs, node: ("renamed", args[0], args[1] if len(args) > 1 else kwargs.get("idx_map"))
            so = SelfObj(cls, {"chains": list(chains), "chains_idx": [sp.Integer(i) for i in sel]})
            data = {"particle": "PARTICLE-DATA", "decay": {"topoX": "DATA-X", "topoY": "DATA-Y"}}
            tr = Translator(repo, hooks=hooks, max_depth=2)
            try:
                out = tr.call_fn(fn, [data], self_obj=so)
            except Unmodelled as e:
                raise AnalysisError("DecayGroup.%s cannot be interpreted on the probe group: %s" % (name, e))
            if single and isinstance(out, tuple) and len(out) == 4 and out[0] == "value":
                out = [out]
            if not isinstance(out, (list, tuple)):
                raise AnalysisError("DecayGroup.%s does not return a per-chain list on the probe group: %r" % (name, out))
            got = []
            for x in out:
                if not (isinstance(x, tuple) and len(x) == 4 and x[0] == "value"):
                    raise AnalysisError("DecayGroup.%s: an entry of the result is not a per-chain probe value: %r" % (name, x))
                dc = x[3]
                got.append((x[2], dc[1] if isinstance(dc, tuple) and dc and dc[0] == "renamed" else dc, dc[2] if isinstance(dc, tuple) and dc and dc[0] == "renamed" else None))
            want = [("chain%d" % i, "DATA-X" if topo[i] == "topoX" else "DATA-Y", ("map", "chain%d" % i)) for i in sel]
            if got != want and bad is None:
                bad = "with chains_idx = %s the entries come from %s, expected %s (chain, event data, particle map)" % (sel, got, want)
        n += 1
        chk.oblige(rule, "DecayGroup.%s lists the used chains in chains_idx order with their own maps and data (3 selections)" % name, bad is None)
        if bad:
            chk.violation(rule, fn.key, "order", "DecayGroup.%s: %s - callers zip this list with lists in chains_idx order, so the mass-dependent part of one chain meets the angular part of another whenever chains of one topology are not adjacent" % (name, bad), file=CORE, line=fn.lineno)
    chk.require_count(rule, 3)


def check_cached_fun_guard(repo, chk, rule="K-avail"):
    """the compiled / traced density is the density of the FULL model: it may be returned only while the whole chain
    set is selected"""
    AMPF = "tf_pwa/amp/amp.py"
    cls = repo.cls(AMPF + "::AbsPDF")
    fn = cls.methods.get("__call__")
    if fn is None:
        raise AnalysisError("anchor vanished: AbsPDF.__call__")
    chk.rule(rule, "AbsPDF.__call__ interpreted with cached_available() false (a partial chain selection is in force) for every combination of no_id_cached and 'data seen before': the result is pdf(data), never the cached / traced function - which was traced for the full model and would return the full amplitude for any selection")
    bad = []
    n = 0
    for no_id in (True, False):
        for seen in (True, False):
            data = {"tag": "DATA"}
            so = SelfObj(cls, {
                "no_id_cached": no_id, "f_data": [id(data)] if seen else [],
                "cached_available": PyFunc(lambda: False),
                "cached_fun": PyFunc(lambda d: ("CACHED", id(d))), "pdf": PyFunc(lambda d: ("PDF", id(d))),
            })
            tr = Translator(repo, hooks={"allow_attr_store": True, "builtin.isinstance": lambda tr_, a, k, n_: False, "builtin.id": lambda tr_, a, k, n_: id(a[0])}, max_depth=2)
            try:
                out = tr.call_fn(fn, [data], self_obj=so)
            except Unmodelled as e:
                raise AnalysisError("AbsPDF.__call__ cannot be interpreted: %s" % e)
            n += 1
            if not (isinstance(out, tuple) and out and out[0] == "PDF"):
                bad.append("no_id_cached=%s, data %s: returns %s" % (no_id, "seen before" if seen else "new", out[0] if isinstance(out, tuple) else out))
    chk.oblige(rule, "AbsPDF.__call__ with cached_available() == False returns pdf(data) in all %d cases" % n, not bad)
    if bad:
        chk.violation(rule, fn.key, "unguarded-cache", "with a partial chain selection in force (cached_available() false) %s: the traced function of the full model answers, so every partial sum / fit fraction evaluates the full amplitude" % "; ".join(bad), file=AMPF, line=fn.lineno)


def check_coherent_sum(repo, chk, rule="B-sum"):
    """DecayGroup.get_amp is the sum of the amplitudes of exactly the selected chains"""
    cls = repo.cls(CORE + "::DecayGroup")
    fn = cls.methods.get("get_amp")
    if fn is None:
        raise AnalysisError("anchor vanished: DecayGroup.get_amp")
    chk.rule(rule, "DecayGroup.get_amp interpreted on three chains with interleaved topologies and the selections [0, 1, 2], [2, 0], [1]: the result is the sum of the chain amplitudes of exactly the selected chains, each evaluated with its own particle map and the event data of its own topology")
    bad = None
    for sel in ([0, 1, 2], [2, 0], [1]):
        topo = {0: "topoX", 1: "topoY", 2: "topoX"}
        chains = []
        for k in range(3):
            c = _Chain("chain%d" % k)

            def amp(*a, _c=c, **kw):
                dc = a[0] if a else kw.get("data_c")
                tag = "%s|%s|%s" % (_c, dc[1] if isinstance(dc, tuple) else dc, dc[2][1] if isinstance(dc, tuple) and isinstance(dc[2], tuple) else "?")
                return sp.Symbol("amp[%s]" % tag)

            c.tok_attrs = {"standard_topology": PyFunc(lambda k_=k: topo[k_]), "get_amp": PyFunc(amp)}
            chains.append(c)
        maps = {c: ("map", str(c)) for c in chains}

        def chains_map(tr, args, kwargs, node):
            req = [x for x in args if isinstance(x, (list, tuple))]
            req = list(req[0]) if req else list(chains)
            out = []
            for t in ("topoX", "topoY"):
                grp = {c: maps[c] for c in req if topo[chains.index(c)] == t}
                if grp:
                    out.append(grp)
            return out

        hooks = {"allow_attr_store": True, "allow_raise": True}
        for g in repo.func_by_name.get("get_chains_map", []):
            if g.cls is not None:
                hooks[g.key] = chains_map
        for g in repo.func_by_name.get("get_base_map", []):
            if g.cls is not None:
                hooks[g.key] = lambda tr, args, kwargs, node: "base_map"
        for g in repo.func_by_name.get("rename_data_dict", []):
            hooks[g.key] = lambda tr, args, kwargs, node: ("renamed", args[0], args[1] if len(args) > 1 else kwargs.get("idx_map"))
        so = SelfObj(cls, {"chains": list(chains), "chains_idx": [sp.Integer(i) for i in sel]})
        data = {"particle": "PARTICLE-DATA", "decay": {"topoX": "DATA-X", "topoY": "DATA-Y"}}
        try:
            out = Translator(repo, hooks=hooks, max_depth=2).call_fn(fn, [data], self_obj=so)
        except Unmodelled as e:
            raise AnalysisError("DecayGroup.get_amp cannot be interpreted on the probe group: %s" % e)
        want = sum(sp.Symbol("amp[chain%d|%s|chain%d]" % (i, "DATA-X" if topo[i] == "topoX" else "DATA-Y", i)) for i in sel)
        if sp.simplify(sp.sympify(out) - want) != 0 and bad is None:
            bad = "with chains_idx = %s the result is %s, expected %s" % (sel, out, want)
    chk.oblige(rule, "DecayGroup.get_amp == sum over the selected chains (3 selections)", bad is None)
    if bad:
        chk.violation(rule, fn.key, "sum", "DecayGroup.get_amp: %s - the coherent sum must run over exactly the chains of the selection" % bad, file=CORE, line=fn.lineno)


def fitfraction_functions_by_interpretation(repo, chk):
    """cal_fitfractions / cal_fitfractions_no_grad interpreted with the integrators as probes: the integral of the
    currently selected resonances is a free symbol I_<selection>, its gradient G_<selection>.  Returns the keys of the
    functions decided this way (their statements are then not matched against role names)."""
    FFm = "tf_pwa/fitfractions.py"
    decided = set()
    names = ["a", "b", "c"]
    for fname, with_grad in (("cal_fitfractions_no_grad", False), ("cal_fitfractions", True)):
        fn = repo.fn_opt(FFm + "::" + fname)
        if fn is None:
            continue
        current = {"sel": tuple(names)}

        def set_used(lst):
            current["sel"] = tuple(str(x) for x in lst)
            return None

        amp = SelfObj(None, {"trainable_variables": ["v1"], "res": list(names), "set_used_res": PyFunc(set_used), "temp_used_res": PyFunc(lambda r: None)})

        def tag():
            sel = current["sel"]
            return "tot" if len(sel) == len(names) else "".join(sorted(sel))

        def no_grad(tr, args, kwargs, node):
            return sp.Symbol("I_" + tag())

        def grad(tr, args, kwargs, node):
            if kwargs.get("grad") is False:
                return sp.Symbol("I_" + tag())
            return sp.Symbol("I_" + tag()), sp.Symbol("G_" + tag())

        hooks = {"allow_attr_store": True, "builtin.isinstance": lambda tr, a, k, n: isinstance(a[0], float)}
        for g in repo.func_by_name.get("sum_no_gradient", []):
            hooks[g.key] = no_grad
        for g in repo.func_by_name.get("sum_gradient", []):
            if g.mod.rel == FFm:
                hooks[g.key] = grad
        try:
            out = Translator(repo, hooks=hooks, max_depth=2).call_fn(fn, [amp, {"tag": "mc"}], {"res": list(names)})
        except Unmodelled as e:
            chk.info("A-frac: %s not interpretable (%s); decided by formula extraction" % (fname, e))
            continue
        ff = out[0] if with_grad and isinstance(out, tuple) else out
        if not isinstance(ff, dict):
            chk.info("A-frac: %s does not return a fraction table in the interpretation; decided by formula extraction" % fname)
            continue
        I = sp.Symbol("I_tot")
        want = {}
        for i, x in enumerate(names):
            want[x] = sp.Symbol("I_" + x) / I
        for i, x in enumerate(names):
            for y in names[:i]:
                want[(x, y)] = sp.Symbol("I_" + "".join(sorted((x, y)))) / I - want[x] - want[y]
        got = {}
        for k, v in ff.items():
            if isinstance(k, tuple):
                got[tuple(str(z) for z in k)] = v
            elif isinstance(k, str) and "x" in k and k not in names:
                a_, b_ = k.split("x")
                got[(a_, b_)] = v
            else:
                got[str(k)] = v
        bad = []
        if set(got) != set(want):
            bad.append("fraction keys %s, expected %s" % (sorted(map(str, got)), sorted(map(str, want))))
        else:
            for k in want:
                if sp.simplify(sp.sympify(got[k]) - want[k]) != 0:
                    bad.append("fraction[%s] = %s, the definition gives %s" % (k, got[k], want[k]))
        if with_grad and isinstance(out, tuple) and len(out) > 1 and isinstance(out[1], dict) and not bad:
            G = sp.Symbol("G_tot")
            wg = {}
            for x in names:
                wg[x] = sp.Symbol("G_" + x) / I - (sp.Symbol("I_" + x) / I) * G / I
            for i, x in enumerate(names):
                for y in names[:i]:
                    t_ = "".join(sorted((x, y)))
                    wg[(x, y)] = sp.Symbol("G_" + t_) / I - (sp.Symbol("I_" + t_) / I) * G / I - wg[x] - wg[y]
            gg = {}
            for k, v in out[1].items():
                gg[tuple(str(z) for z in k) if isinstance(k, tuple) else str(k)] = v
            # the second table holds errors or gradients depending on the caller's options: judged only when it holds
            # one entry per fraction and every entry is an expression of the probes
            if set(gg) == set(wg) and all(hasattr(sp.sympify(v), "free_symbols") for v in gg.values()):
                for k in wg:
                    if sp.simplify(sp.sympify(gg[k]) - wg[k]) != 0:
                        bad.append("gradient[%s] = %s, the quotient rule gives %s" % (k, gg[k], wg[k]))
                        break
        # batched evaluation: the per-event weights are split together with the events, whatever array type carries them
        import ast as _ast
        for kind in ("tensor", "ndarray"):
            wtok = sp.Symbol("W_%s" % kind)
            seen = []

            def isinst_(tr, a, k, n, _kind=kind, _w=wtok):
                names_ = {x.id if isinstance(x, _ast.Name) else x.attr for x in _ast.walk(n.args[1]) if isinstance(x, (_ast.Name, _ast.Attribute))} if len(n.args) > 1 else set()
                v = a[0]
                if v is _w:
                    return ("ndarray" in names_ and _kind == "ndarray") or ("Tensor" in names_ and _kind == "tensor")
                return ("float" in names_ and isinstance(v, float)) or ("list" in names_ and isinstance(v, list))

            def split_(tr, a, k, n):
                return [("batch", a[0], 0), ("batch", a[0], 1)]

            def integ_(tr, a, k, n, _with=with_grad):
                b_ = Translator.bound_args(n_fn, a, k) if n_fn is not None else dict(k)
                seen.append((b_.get("data", a[1] if len(a) > 1 else None), b_.get("weight")))
                if k.get("grad") is False or not _with:
                    return sp.Symbol("I_" + tag())
                return sp.Symbol("I_" + tag()), sp.Symbol("G_" + tag())

            hooks2 = dict(hooks)
            hooks2["builtin.isinstance"] = isinst_
            n_fn = None
            for g in repo.func_by_name.get("sum_gradient", []):
                if g.mod.rel == FFm:
                    hooks2[g.key] = integ_
                    n_fn = g
            for g in repo.func_by_name.get("data_split", []) + repo.func_by_name.get("split_generator", []):
                hooks2[g.key] = split_
            current["sel"] = tuple(names)
            mc = {"weight": wtok, "tag": "mc"}
            try:
                Translator(repo, hooks=hooks2, max_depth=2).call_fn(fn, [amp, mc], {"res": list(names), "batch": sp.Integer(2)})
            except Unmodelled as e:
                chk.info("A-frac: %s with batch not interpretable (%s)" % (fname, e))
                continue
            unsplit = [w_ for d_, w_ in seen if isinstance(d_, list) and d_ and isinstance(d_[0], tuple) and d_[0][0] == "batch" and not (isinstance(w_, list) and w_ and isinstance(w_[0], tuple) and w_[0][0] == "batch")]
            okb = bool(seen) and not unsplit
            chk.instance("A-frac", "%s with batch=2 and %s weights: events and weights are split together in all %d integrations: %s" % (fname, kind, len(seen), okb))
            if seen and unsplit:
                bad.append("with a batch size and per-event weights held in a %s the events are split into batches but the weights are handed over whole (%s): batch k is weighted by the k-th entry of the weight vector, so the fractions depend on the batch size" % ("tf.Tensor" if kind == "tensor" else "numpy array", unsplit[0]))
        chk.instance("A-index", "%s visits %d index pairs for n=3 (complete: %s)" % (fname, len(got), set(got) == set(want)))
        chk.instance("A-frac", "%s interpreted for three resonances with probe integrals: %d fractions%s equal the definition: %s" % (fname, len(want), " (and their gradients)" if with_grad else "", not bad))
        if bad:
            chk.violation("A-frac", fn.key, "algebra", "%s: %s" % (fname, bad[0]), file=FFm, line=fn.lineno)
        decided.add(fn.key)
    return decided


def check_selection_maps(repo, chk, rule="B-select"):
    """the chain maps handed to get_amp / get_m_dep cover exactly the selected chains - the empty selection included"""
    chk.rule(rule, "DecayGroup.get_chains_map (the particle-level one every amplitude traversal calls with the tuple of used chains) interpreted on a group of three chains of two topologies (topology_structure, the DecayChain constructor, topology_same / topology_map as probes) for no argument, the whole group, one chain, two chains and the EMPTY selection: the maps hold exactly the selected chains - an empty selection (a resonance that owns no chain, an empty group of partial_weight) stays empty, so its partial sum is zero and not the full amplitude")
    fns = [g for g in repo.func_by_name.get("get_chains_map", []) if g.cls is not None and g.mod.rel == "tf_pwa/particle.py"]
    if not fns:
        raise AnalysisError("anchor vanished: particle.DecayGroup.get_chains_map")
    fn = fns[0]
    topo = {"chain0": "topoX", "chain1": "topoY", "chain2": "topoX"}
    chains = [_Chain(k) for k in sorted(topo)]
    for c in chains:
        c.tok_attrs = {}

    def mk_chain(tr, args, kwargs, node):
        t = [a for a in args if isinstance(a, list)][0][0]
        return SelfObj(None, {"topology_same": PyFunc(lambda other, identical=False, t_=t: topo[str(other)] == t_), "topology_map": PyFunc(lambda other, t_=t: ("map", t_, str(other)))})

    dcs = [c for c in repo.classes_by_name.get("DecayChain", []) if c.mod.rel == "tf_pwa/particle.py"] if hasattr(repo, "classes_by_name") else [repo.cls("tf_pwa/particle.py::DecayChain")]
    hooks = {"allow_attr_store": True, "allow_raise": True, dcs[0].key: mk_chain}
    for g in repo.func_by_name.get("topology_structure", []):
        if g.cls is fn.cls:
            hooks[g.key] = lambda tr, args, kwargs, node: [("topoX",), ("topoY",)]
    bad = None
    n = 0
    for sel, label in ((None, "no argument"), (tuple(chains), "all three"), ((chains[1],), "chain1"), ((chains[2], chains[0]), "chain2, chain0"), ((), "the empty selection"), ([], "the empty list")):
        so = SelfObj(fn.cls, {"chains": list(chains)})
        tr = Translator(repo, hooks=hooks, max_depth=2)
        try:
            out = tr.call_fn(fn, [] if sel is None else [sel], self_obj=so)
        except Unmodelled as e:
            raise AnalysisError("particle.DecayGroup.get_chains_map cannot be interpreted on the probe group (%s): %s" % (label, e))
        n += 1
        want = sorted(str(c) for c in (chains if sel is None else sel))
        got = sorted(str(c) for m_ in (out if isinstance(out, list) else []) for c in m_) if isinstance(out, list) else None
        wrong_class = [str(c) for m_ in (out if isinstance(out, list) else []) for c, v in m_.items() if not (isinstance(v, tuple) and v[1] == topo[str(c)])]
        if (got != want or wrong_class) and bad is None:
            bad = "for %s the maps hold the chains %s, expected %s%s" % (label, got, want, (" (mapped onto another topology: %s)" % wrong_class) if wrong_class else "")
    chk.oblige(rule, "get_chains_map covers exactly the selected chains for %d selections (none given, all, one, two, empty tuple, empty list)" % n, bad is None)
    if bad:
        chk.violation(rule, fn.key, "selection", "DecayGroup.get_chains_map: %s - get_amp / get_m_dep pass the tuple of used chains, so the partial sum of an empty selection (set_used_res with a resonance that owns no chain, an empty group of partial_weight) becomes the full amplitude and the fit fractions of such entries are not zero" % bad, file=fn.mod.rel, line=fn.lineno)


def check_masked_read(repo, chk, rule="V-mask"):
    """a coupling masked to a value reads as that value - zero included (partial waves are obtained by masking to 0)"""
    chk.rule(rule, "VarsManager.read interpreted with the mask tables {}, {other: 0}, {name: 2.5}, {name: 0.0} and {name: 0}: a masked variable reads as its mask (a constant for the tape), an unmasked one as the variable - the value 0 is a mask like any other (mask_params / factor_iteration switch a chain off by masking its coupling to 0)")
    vm = repo.cls("tf_pwa/variable.py::VarsManager")
    fn = vm.methods.get("read")
    if fn is None:
        raise AnalysisError("anchor vanished: VarsManager.read")
    V = sp.Symbol("V_name", real=True)
    bad = None
    cases = [({}, V, "no mask"), ({"other": 0.0}, V, "another variable masked"), ({"name": 2.5}, sp.Float(2.5), "masked to 2.5"), ({"name": 0.0}, sp.Integer(0), "masked to 0.0"), ({"name": 0}, sp.Integer(0), "masked to 0")]
    for masks, want, label in cases:
        so = SelfObj(vm, {"variables": {"name": V, "other": sp.Symbol("V_other", real=True)}, "mask_vars": {k: (sp.Float(v) if isinstance(v, float) else sp.Integer(v)) for k, v in masks.items()}, "pre_trans": {}, "bnd_dic": {}, "complex_vars": {}})
        tr = Translator(repo, hooks={"allow_attr_store": True, "allow_raise": True}, max_depth=2)
        try:
            got = tr.call_fn(fn, ["name"], self_obj=so)
        except Unmodelled as e:
            raise AnalysisError("VarsManager.read cannot be interpreted (%s): %s" % (label, e))
        except Raised as e:
            got = "raises %s" % e
        try:
            same = sp.simplify(sp.sympify(got) - want) == 0
        except (TypeError, sp.SympifyError):
            same = False
        if not same and bad is None:
            bad = "%s: read('name') gives %s, expected %s" % (label, got, want)
    chk.oblige(rule, "VarsManager.read on %d mask tables" % len(cases), bad is None)
    if bad:
        chk.violation(rule, fn.key, "masked-read", "%s - a chain switched off by masking its coupling to zero keeps its full amplitude: the partial waves no longer add up to the full amplitude and the fit fraction of a switched-off resonance is not zero" % bad, file="tf_pwa/variable.py", line=fn.lineno)
