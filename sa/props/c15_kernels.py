"""C15 clauses (b) Breit-Wigner family, (c) symbolic denominators, (d) trivial models - E6.

Every obligation is an exact identity between the canonical algebraic form of
a kernel of /repo (translated from its AST, callees inlined) and a reference
formula built here from the documentation of the model:

   Gamma_ref(L) = g0 (q/q0)^(2L+1) (m0/m) P_L((q0 d)^2) / P_L((q d)^2)
   P_L(z)       = |theta_L(i sqrt z)|^2  (reverse Bessel polynomial, exact integers)
   BW_ref       = 1 / (m0^2 - m^2 - i m0 g0)
   BWR_ref(L)   = 1 / (m0^2 - m^2 - i m0 Gamma_ref(L))

Domain assumption: above threshold, all of m, m0, g0, q, q0, d positive.
"""
import ast
from fractions import Fraction
from math import factorial

import sympy as sp

from ..model import AnalysisError, norm_text, walk_local
from ..sym import PyFunc, SelfObj, Translator, Unmodelled, equal

BWF = "tf_pwa/breit_wigner.py::"
FORM = "tf_pwa/formula.py::"


def ref_poly(L, z):
    """|theta_L(i w)|^2 as a polynomial in z = w^2 (exact integer coefficients)"""
    # theta_L(x) = sum_k (L+k)!/((L-k)! k! 2^k) x^(L-k)
    re_c, im_c = {}, {}
    for k in range(L + 1):
        c = Fraction(factorial(L + k), factorial(L - k) * factorial(k) * 2 ** k)
        p = L - k  # power of x = i w  ->  i^p w^p
        sign = [1, 1, -1, -1][p % 4]
        (re_c if p % 2 == 0 else im_c)[p] = sign * c
    w = sp.Symbol("w__")
    re = sum(sp.Rational(c.numerator, c.denominator) * w ** p for p, c in re_c.items())
    im = sum(sp.Rational(c.numerator, c.denominator) * w ** p for p, c in im_c.items())
    poly = sp.Poly(sp.expand(re ** 2 + im ** 2), w)
    out = 0
    for (p,), c in poly.terms():
        assert p % 2 == 0
        out = out + c * z ** (p // 2)
    return sp.expand(out)


def check_shared_momenta(repo, chk):
    """what a decay vertex writes into the per-decay dictionary is read by the resonance line shapes: the nominal
    momentum there is the physical one, whatever barrier option the vertex uses for itself"""
    CORE_ = "tf_pwa/amp/core.py"
    cls = repo.cls(CORE_ + "::HelicityDecay")
    fn = cls.methods.get("get_ls_amp")
    if fn is None:
        raise AnalysisError("anchor vanished: HelicityDecay.get_ls_amp")
    chk.rule("Q-shared", "HelicityDecay.get_ls_amp interpreted with each barrier option of the vertex (no_q0, has_barrier_factor) on and off: the entries it leaves in the shared per-decay dictionary are |q0|^2 = get_relative_momentum2(nominal masses) and |q|^2 = get_relative_momentum2(event masses) - the q^2-based line shapes (BWR2, BWR_normal, BWR_LS ...) normalise their running width with them, so an option of the vertex must not rewrite them")
    Q0, Q = sp.symbols("Q0SQ QSQ", positive=True)
    core = SelfObj(None, {"tag": "core"})
    n = 0
    for no_q0 in (False, True):
        for hbf in (True, False):
            hooks = {"allow_attr_store": True, "allow_shape": True, "stack_as_array": True,
                     "numeric_call_first": lambda tr, d_, args, kwargs, n_: (args[0] if d_.split(".")[-1] in ("reshape", "cast", "ones_like") and args else NotImplemented)}
            rm2 = cls.methods.get("get_relative_momentum2")
            if rm2 is None:
                raise AnalysisError("anchor vanished: HelicityDecay.get_relative_momentum2")
            hooks[rm2.key] = lambda tr, args, kwargs, node: (Q if Translator.bound_args(rm2, args, kwargs).get("from_data") in (True, sp.true) else Q0)
            for nm in ("get_barrier_factor2", "get_g_ls"):
                if nm in cls.methods:
                    hooks[cls.methods[nm].key] = (lambda nm_: (lambda tr, args, kwargs, node: sp.Symbol("probe_" + nm_)))(nm)
            for g in repo.func_by_name.get("to_complex", []):
                hooks[g.key] = lambda tr, args, kwargs, node: args[0]
            so = SelfObj(cls, {"core": core, "no_q0": no_q0, "has_barrier_factor": hbf, "d": sp.Integer(3)})
            data = {}
            try:
                Translator(repo, hooks=hooks, max_depth=2).call_fn(fn, [data, {core: {"m": sp.Symbol("m", positive=True)}}], self_obj=so)
            except Unmodelled as e:
                raise AnalysisError("HelicityDecay.get_ls_amp cannot be interpreted (no_q0=%s): %s" % (no_q0, e))
            ok = data.get("|q0|2") == Q0 and data.get("|q|2") == Q
            n += 1
            chk.oblige("Q-shared", "get_ls_amp(no_q0=%s, has_barrier_factor=%s) leaves |q0|2 = %s, |q|2 = %s in the shared dictionary" % (no_q0, hbf, data.get("|q0|2"), data.get("|q|2")), ok)
            if not ok:
                chk.violation("Q-shared", fn.key, "q0:no_q0=%s" % no_q0, "with no_q0=%s, has_barrier_factor=%s the shared per-decay dictionary holds |q0|2 = %s, |q|2 = %s instead of the physical momenta (%s, %s): the resonance's own running width Gamma(m) is then normalised at another q0, so Gamma(m0) != Gamma0" % (no_q0, hbf, data.get("|q0|2"), data.get("|q|2"), Q0, Q), file=CORE_, line=fn.lineno)
    chk.require_count("Q-shared", 4)


def check_kernels(repo, chk, tier):
    chk.rule("E6-bw", "canonical form of each Breit-Wigner-family kernel equals the documented 1/(m0^2-m^2-i m0 Gamma(m)) with Gamma built from the exact Blatt-Weisskopf polynomial (per L)")
    chk.rule("E6-barrier", "Bprime(L,q0,q0,d)=1, Bprime_q2^2 = Bprime^2 above threshold, Bprime^2 = P_L((q0 d)^2)/P_L((q d)^2)")
    chk.rule("E6-dom", "formula.*_dom(...) * numeric kernel = 1 (symbolic denominators are the reciprocals of the numeric line shapes); get_sympy_dom is wired to the *_dom matching the numeric kernel")
    chk.rule("E6-trivial", "models `one` and `x` return 1 and m")
    chk.assume("E6 domain: above threshold; m, m0, g0, q, q0, d are positive reals; tf.where guards of the form `positive > 1e-15` take their true branch")
    chk.assume("tf.cast / convert_to_tensor / to_complex are identities on values; tf.complex(a,b) = a+ib; tf.math.polyval is Horner, highest power first")
    chk.trusted_base[:] = ["AST->sympy translator sa/sym.py", "sympy ring normaliser (expand/together/cancel)", "checker's reverse-Bessel reference ref_poly()"]

    m, m0, g0, q, q0, d = sp.symbols("m m0 g0 q q0 d", positive=True)
    Ls = range(0, 3) if tier == "quick" else range(0, 9)
    hooks = {}

    def coeff_hook(tr, args, kwargs, n):
        # L > 5: the run-time generator get_bprime_coeff (sympy Poly at run time) is replaced by the
        # checker's reference; the literal tables (L <= 5) are read from the source itself
        L = int(args[0])
        zz = sp.Symbol("zz__")
        p = sp.Poly(ref_poly(L, zz), zz)
        return [p.coeff_monomial(zz ** (L - i)) for i in range(L + 1)]

    hooks[BWF + "get_bprime_coeff"] = coeff_hook
    tr = Translator(repo, hooks=hooks)

    def K(name, *args):
        return tr.call_fn(repo.fn(BWF + name), list(args))

    def oblige(rule, text, a, b, where, construct, file="tf_pwa/breit_wigner.py"):
        ok, detail = equal(a, b)
        if ok is None:
            raise AnalysisError("E6 normaliser too weak for %s: %s" % (text, detail))
        chk.oblige(rule, text, ok)
        if not ok:
            f = repo.fn_opt(where)
            chk.violation(rule, where, construct, "%s does not hold: %s" % (text, detail), file=file, line=f.lineno if f else None)
        return ok

    # ---- BW (fixed width)
    bw = K("BW", m, m0, g0)
    bw_ref = 1 / (m0 ** 2 - m ** 2 - sp.I * m0 * g0)
    oblige("E6-bw", "BW(m,m0,g0) == 1/(m0^2-m^2-i m0 g0)", bw, bw_ref, BWF + "BW", "formula")
    oblige("E6-bw", "BW(m0,m0,g0) == i/(m0 g0)", bw.subs(m, m0), sp.I / (m0 * g0), BWF + "BW", "at-pole")

    for L in Ls:
        Li = sp.Integer(L)
        P0, P = ref_poly(L, (q0 * d) ** 2), ref_poly(L, (q * d) ** 2)
        gam_ref = g0 * (q / q0) ** (2 * L + 1) * (m0 / m) * P0 / P
        bwr_ref = 1 / (m0 ** 2 - m ** 2 - sp.I * m0 * gam_ref)
        # barrier factors
        bp = K("Bprime", Li, q, q0, d)
        oblige("E6-barrier", "Bprime(L=%d)^2 == P_L((q0 d)^2)/P_L((q d)^2)" % L, bp ** 2, P0 / P, BWF + "Bprime", "L=%d" % L)
        oblige("E6-barrier", "Bprime(L=%d, q=q0) == 1" % L, bp.subs(q, q0), sp.Integer(1), BWF + "Bprime", "q=q0,L=%d" % L)
        bpq2 = K("Bprime_q2", Li, q ** 2, q0 ** 2, d)
        oblige("E6-barrier", "Bprime_q2(L=%d,q^2,q0^2)^2 == Bprime(L,q,q0)^2" % L, bpq2 ** 2, bp ** 2, BWF + "Bprime_q2", "L=%d" % L)
        # widths
        gam = K("Gamma", m, g0, q, q0, Li, m0, d)
        oblige("E6-bw", "Gamma(L=%d) == g0 (q/q0)^(2L+1) (m0/m) B'^2" % L, gam, gam_ref, BWF + "Gamma", "L=%d" % L)
        oblige("E6-bw", "Gamma(L=%d)(m=m0,q=q0) == g0" % L, gam.subs({m: m0, q: q0}), g0, BWF + "Gamma", "at-pole,L=%d" % L)
        gam2 = K("Gamma2", m, g0, q ** 2, q0 ** 2, Li, m0, d)
        oblige("E6-bw", "Gamma2(L=%d)(q^2,q0^2) == Gamma(q,q0)" % L, gam2, gam_ref, BWF + "Gamma2", "L=%d" % L)
        # line shapes
        bwr = K("BWR", m, m0, g0, q, q0, Li, d)
        oblige("E6-bw", "BWR(L=%d) == 1/(m0^2-m^2-i m0 Gamma)" % L, bwr, bwr_ref, BWF + "BWR", "L=%d" % L)
        bwr2 = K("BWR2", m, m0, g0, q ** 2, q0 ** 2, Li, d)
        oblige("E6-bw", "BWR2(L=%d) == 1/(m0^2-m^2-i m0 Gamma)" % L, bwr2, bwr_ref, BWF + "BWR2", "L=%d" % L)
        bwn = K("BWR_normal", m, m0, g0, q ** 2, q0 ** 2, Li, d)
        oblige("E6-bw", "BWR_normal(L=%d) == sqrt(m0 Gamma)/(m0^2-m^2-i m0 Gamma)" % L, bwn, sp.sqrt(m0 * gam_ref) * bwr_ref, BWF + "BWR_normal", "L=%d" % L)
        if L == 1 or tier != "quick":
            oblige("E6-bw", "BWR(L=%d)(m=m0,q=q0) == i/(m0 g0)" % L, bwr.subs({m: m0, q: q0}), sp.I / (m0 * g0), BWF + "BWR", "at-pole,L=%d" % L)

    # ---- below threshold: the q^2-based width is the analytic continuation q -> i|q| of the documented one
    kk = sp.Symbol("k", positive=True)
    for L in Ls:
        Li = sp.Integer(L)
        g2b = K("Gamma2", m, g0, -kk ** 2, q0 ** 2, Li, m0, d)
        want = g0 * (sp.I * kk / q0) ** (2 * L + 1) * (m0 / m) * ref_poly(L, (q0 * d) ** 2) / ref_poly(L, -(kk * d) ** 2)
        oblige("E6-bw", "Gamma2(L=%d) below threshold (q^2=-k^2) == documented width at q = i k" % L, g2b, want, BWF + "Gamma2", "below-threshold,L=%d" % L)
        # Bprime_q2 below threshold (tf.where(bp > 0, bp, 1) on a sign-indefinite ratio) is data dependent: not decided
    # ---- (c) symbolic denominators
    p, p0 = sp.symbols("p p0", positive=True)
    m1, m2 = sp.symbols("m1 m2", positive=True)

    def relp_hook(tr_, args, kwargs, n):
        # break-up momentum atoms: p = q(m), p0 = q(m0)
        a0 = args[0]
        if a0 == m:
            return p
        if a0 == m0:
            return p0
        raise Unmodelled("get_relative_p of unexpected argument %s" % a0)

    tr2 = Translator(repo, hooks={FORM + "get_relative_p": relp_hook, BWF + "get_bprime_coeff": coeff_hook})

    def Fm(name, *args):
        return tr2.call_fn(repo.fn(FORM + name), list(args))

    oblige("E6-dom", "formula.BW_dom * BW == 1", Fm("BW_dom", m, m0, g0) * bw, sp.Integer(1), FORM + "BW_dom", "reciprocal", file="tf_pwa/formula.py")
    for L in (Ls if tier != "quick" else range(0, 3)):
        Li = sp.Integer(L)
        dom = Fm("BWR_dom", m, m0, g0, Li, m1, m2, d)
        kern = tr.call_fn(repo.fn(BWF + "BWR"), [m, m0, g0, p, p0, Li, d])
        oblige("E6-dom", "formula.BWR_dom(L=%d) * BWR == 1" % L, dom * kern, sp.Integer(1), FORM + "BWR_dom", "L=%d" % L, file="tf_pwa/formula.py")
        # the formula module's own polynomial table vs reference
        z = sp.Symbol("z", positive=True)
        oblige("E6-dom", "formula.Bprime_polynomial(L=%d) == P_L" % L, Fm("Bprime_polynomial", Li, z), ref_poly(L, z), FORM + "Bprime_polynomial", "L=%d" % L, file="tf_pwa/formula.py")
        # BWR_coupling model (method-level kernel) vs its symbolic denominator
        cls = repo.cls("tf_pwa/amp/base.py::ParticleBWRCoupling")
        so = SelfObj(cls, {
            "get_mass": PyFunc(lambda: m0), "get_width": PyFunc(lambda: g0),
            "bw_l": Li, "d": d, "decay": [None],
        })
        try:
            amp = tr.call_fn(cls.lookup("get_amp"), [{"m": m}, {"|q|2": p ** 2}], self_obj=so)
            domc = Fm("BWR_coupling_dom", m, m0, g0, Li, m1, m2, d)
            oblige("E6-dom", "formula.BWR_coupling_dom(L=%d) * ParticleBWRCoupling.get_amp == 1" % L, domc * amp, sp.Integer(1),
                   "tf_pwa/amp/base.py::ParticleBWRCoupling.get_amp", "L=%d" % L, file="tf_pwa/amp/base.py")
        except Unmodelled as e:
            chk.info("ParticleBWRCoupling.get_amp not analysed (L=%d): %s" % (L, e))

    # registry pairing: which numeric kernel / which *_dom each class is wired to
    pairs = [
        ("tf_pwa/amp/core.py::Particle", {"BW": "BW_dom", "BWR": "BWR_dom"}),
        ("tf_pwa/amp/base.py::ParticleBWRCoupling", {None: "BWR_coupling_dom"}),
    ]
    for ckey, mapping in pairs:
        cls = repo.cls(ckey)
        ga, gd = cls.methods.get("get_amp"), cls.methods.get("get_sympy_dom")
        if ga is None or gd is None:
            raise AnalysisError("%s lost get_amp/get_sympy_dom" % ckey)
        def _callee_name(c):
            return c.func.id if isinstance(c.func, ast.Name) else (c.func.attr if isinstance(c.func, ast.Attribute) else None)

        called = {_callee_name(n) for n in walk_local(ga.node) if isinstance(n, ast.Call)} - {None}
        doms = {_callee_name(n) for n in walk_local(gd.node) if isinstance(n, ast.Call) and (_callee_name(n) or "").endswith("_dom")}
        want = set(mapping.values())
        kernels = {k for k in mapping if k is not None}
        ok = doms == want and kernels <= called
        if kernels == {"BW", "BWR"}:
            # decided by interpretation below (branch agreement: get_sympy_dom * get_amp == 1 for either branch): the
            # names called in the two bodies are reported only - a helper method may carry the calls
            chk.info("E6-dom wiring (informative): %s: get_amp calls %s, get_sympy_dom calls %s" % (ckey, sorted(called & kernels) or "helpers", sorted(doms) or "helpers"))
        else:
            chk.oblige("E6-dom", "%s: get_amp uses %s, get_sympy_dom uses %s" % (ckey, sorted(kernels) or "inline formula", sorted(doms)), ok)
            if not ok:
                chk.violation("E6-dom", gd.key, "wiring", "get_sympy_dom is wired to %s but the numeric kernel(s) %s require %s" % (sorted(doms), sorted(kernels), sorted(want)), file=cls.mod.rel, line=gd.lineno)
        # branch agreement: for either value of running_width the class's own get_amp and get_sympy_dom are reciprocal
        if kernels == {"BW", "BWR"}:
            # the barrier radius the class itself sets (init_params); get_sympy_dom relies on BWR_dom's default
            ip = cls.lookup("init_params")
            dvals = [n.value for n in walk_local(ip.node) if (isinstance(n, ast.Assign) and len(n.targets) == 1 and norm_text(n.targets[0]) == "self.d") or (isinstance(n, ast.AnnAssign) and n.value is not None and norm_text(n.target) == "self.d")] if ip else []
            if len(dvals) == 1 and isinstance(dvals[0], ast.Name) and dvals[0].id in cls.mod.toplevel_assign:
                dvals = [cls.mod.toplevel_assign[dvals[0].id]]  # a module-level constant
            if len(dvals) != 1 or not isinstance(dvals[0], ast.Constant) or not isinstance(dvals[0].value, (int, float)):
                raise AnalysisError("%s.init_params no longer sets self.d to one constant" % ckey)
            d_cls = sp.nsimplify(dvals[0].value)
            # the decay the resonance was built for allows l = 1, 2: an explicit bw_l (0 included) is used as given,
            # a missing one (None) defaults to the lowest allowed l
            dec_tok = SelfObj(None, {"get_l_list": PyFunc(lambda: [sp.Integer(1), sp.Integer(2)])})
            for rw in (False, True):
                for L in (0, 1, 2, None):
                    Li = sp.Integer(L) if L is not None else None
                    attrs = {
                        "get_mass": PyFunc(lambda: m0), "get_width": PyFunc(lambda: g0), "running_width": rw,
                        "bw_l": Li, "d": d_cls, "width_norm": False, "decay": [dec_tok],
                    }
                    try:
                        amp = Translator(repo, hooks=dict(hooks, allow_attr_store=True), max_depth=7).call_fn(ga, [{"m": m}, {"|q|": p, "|q0|": p0, "|q|2": p ** 2, "|q0|2": p0 ** 2}], self_obj=SelfObj(cls, dict(attrs)))
                        dom_ = Translator(repo, hooks={FORM + "get_relative_p": relp_hook, BWF + "get_bprime_coeff": coeff_hook, "allow_attr_store": True}, max_depth=7).call_fn(gd, [m, m0, g0, m1, m2], self_obj=SelfObj(cls, dict(attrs)))
                    except Unmodelled as e:
                        raise AnalysisError("%s.get_amp / get_sympy_dom cannot be interpreted (running_width=%s): %s" % (ckey, rw, e))
                    oblige("E6-dom", "%s: get_sympy_dom * get_amp == 1 (running_width=%s, bw_l=%s)" % (ckey, rw, L), dom_ * amp, sp.Integer(1), gd.key, "branch:running_width=%s,L=%s" % (rw, L), file=cls.mod.rel)
                    if not rw:
                        break
                    L_eff = sp.Integer(L) if L is not None else sp.Integer(1)
                    ref_ = tr.call_fn(repo.fn(BWF + "BWR"), [m, m0, g0, p, p0, L_eff, d_cls])
                    oblige("E6-dom", "%s: get_amp with bw_l=%s (decay allows l = 1, 2) == BWR(.., L=%s, d)" % (ckey, L, L_eff), amp, ref_, ga.key, "bw_l=%s" % L, file=cls.mod.rel)

    # ---- (d) trivial models
    one = tr.call_fn(repo.fn(BWF + "one"), [m])
    oblige("E6-trivial", "one(m) == 1", one, sp.Integer(1), BWF + "one", "value")
    px = repo.cls("tf_pwa/amp/core.py::ParticleX")
    try:
        so = SelfObj(px, {})
        v = tr.call_fn(px.lookup("get_amp"), [{"m": m}], self_obj=so)
        oblige("E6-trivial", "ParticleX.get_amp == m", v, m, "tf_pwa/amp/core.py::ParticleX.get_amp", "value", file="tf_pwa/amp/core.py")
    except Unmodelled as e:
        chk.info("ParticleX.get_amp not analysed: %s" % e)
    chk.info("not decided: GS_rho, Flatte, exp models, behaviour below threshold, finiteness (piecewise / data dependent)")
    chk.extra["kernels_inlined"] = sorted(tr.inlined | tr2.inlined)
    chk.extra["L_range"] = [min(Ls), max(Ls)]
