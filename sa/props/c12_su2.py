"""C12 clause: SU(2) matrices (tf_pwa.angle.SU2M), decided as exact identities (E6).

  algebra   __mul__ is the 2x2 matrix product; inv(M) * M = det(M) * 1; the generators have determinant one and
            are one-parameter groups: R_z(a) R_z(b) = R_z(a+b), R_y(a) R_y(b) = R_y(a+b), B_z(a) B_z(b) = B_z(a+b)
  euler     for M = R_z(g) R_y(b) R_z(a) built with the repository's own generators, get_euler_angle(M) returns
            angles from which the same generators rebuild M *as an SU(2) matrix* (sign included: the alignment
            D-functions of half-integer spin are 4 pi periodic)
The phases are parametrised by u = (a+g)/2, v = (a-g)/2 in (-pi, pi); tf.math.angle is interpreted exactly: the
principal argument of rho * exp(i t) is t when rho > 0 and t is one of u, v, -u, -v, and otherwise the 2 pi-periodic
wrap W(.) of the phase, which is kept as an uninterpreted function.  If W survives in an obligation the identity is
evaluated with the true wrap on a grid of (u, v) to obtain a genuine counter-example (or exit 2 if none is found).
"""
import itertools

import sympy as sp

from ..model import AnalysisError
from ..sym import Translator, Unmodelled, equal

A = "tf_pwa/angle.py::"
Wrap = sp.Function("Wrap")


def _bind(names, args, kwargs, defaults=None):
    """positional/keyword binding for hook functions that stand in for repo callables"""
    out = list(args[: len(names)])
    for nm in names[len(out):]:
        if nm in kwargs:
            out.append(kwargs[nm])
        elif defaults and nm in defaults:
            out.append(defaults[nm])
        else:
            raise Unmodelled("argument %s missing in a hooked call" % nm)
    return out


def check_su2(repo, chk, parts=("algebra", "euler")):
    chk.rule("E6-su2", "SU2M: matrix product, inverse, unit determinant and additivity of the generators; get_euler_angle(R_z(g) R_y(b) R_z(a)) yields angles that rebuild the same SU(2) matrix (including its sign)")
    u, v = sp.symbols("u v", real=True)
    C, S = sp.symbols("C S", positive=True)  # cos(b/2), sin(b/2), 0 < b < pi
    HB = sp.Symbol("HB", real=True)

    def angle_hook(tr, a):
        z = sp.powsimp(sp.expand(a))
        if z == 0:
            return sp.Integer(0)  # tf.math.angle(0) = atan2(0, 0) = 0
        phi, rest = sp.Integer(0), sp.Integer(1)
        for f in sp.Mul.make_args(z):
            if isinstance(f, sp.exp) and (f.args[0] / sp.I).is_real:
                phi += f.args[0] / sp.I
            else:
                rest *= f
        rest = sp.simplify(rest)
        if rest.is_positive and (phi.is_Symbol or (-phi).is_Symbol):
            return phi  # principal value: |u|, |v| < pi
        if rest.is_positive:
            return Wrap(phi)
        if rest.is_negative:
            return Wrap(phi + sp.pi)
        raise Unmodelled("tf.math.angle of %s: modulus factor %s has no decidable sign" % (a, rest))

    def half(kind):
        def f(tr, a):
            if a == HB:
                return C if kind == "cos" else S
            t = 2 * a
            if isinstance(t, sp.acos):  # cos(acos(t)/2) = sqrt((1+t)/2), sin(acos(t)/2) = sqrt((1-t)/2) on [0, pi]
                return sp.sqrt((1 + t.args[0]) / 2) if kind == "cos" else sp.sqrt((1 - t.args[0]) / 2)
            return sp.cos(a) if kind == "cos" else sp.sin(a)
        return f

    hooks = {
        "unary:cos": half("cos"), "unary:sin": half("sin"), "unary:angle": angle_hook,
        "unary:clip_by_value": lambda tr, a: a,
        # x % (2 pi) = W(x - pi) + pi with W the wrap to (-pi, pi]
        "binop:Mod": lambda tr, a, b: (Wrap(a - sp.pi) + sp.pi) if sp.simplify(b - 2 * sp.pi) == 0 or abs(float(b) - 6.283185307179586) < 1e-12 else (_ for _ in ()).throw(Unmodelled("modulo by %s" % b)),
        A + "SU2M": lambda tr, args, kwargs, n: {"x": args[0] if args else next(iter(kwargs.values()))},
        A + "EulerAngle": lambda tr, args, kwargs, n: dict(zip(("alpha", "beta", "gamma"), _bind(["alpha", "beta", "gamma"], args, kwargs, {"alpha": 0, "beta": 0, "gamma": 0}))),
    }
    def generic_policy(cond, tr_):
        # a data-dependent branch (e.g. a gimbal-lock guard) at a generic rotation: decided at C = 1/2 and generic phases
        try:
            v_ = sp.sympify(cond).subs({C: sp.Rational(1, 2), S: sp.sqrt(3) / 2, u: sp.Rational(3, 10), v: sp.Rational(-7, 10), HB: sp.pi / 3})
            v_ = sp.simplify(v_)
            if v_ is sp.true or v_ is sp.false:
                return bool(v_)
        except Exception:
            pass
        return None

    def _minmax(tr_, d, args, kwargs, n):
        last_ = d.split(".")[-1]
        if last_ in ("atan2", "arctan2") and len(args) == 2:
            # atan2(Im z, Re z) is the phase of z: the same principal value as tf.math.angle(z)
            im_, re_ = sp.sympify(args[0]), sp.sympify(args[1])
            z_ = None
            if isinstance(im_, sp.im) and isinstance(re_, sp.re) and im_.args[0] == re_.args[0]:
                z_ = im_.args[0]
            else:
                z_ = sp.simplify((re_ + sp.I * im_).rewrite(sp.exp))
            try:
                return angle_hook(tr_, z_)
            except Unmodelled:
                return NotImplemented   # not the phase of a recognisable z: keep the plain two-argument arctangent
        if last_ not in ("minimum", "maximum") or len(args) != 2:
            return NotImplemented
        a_, b_ = [sp.sympify(x) for x in args]
        # a clip into [-1, 1] spelt minimum(maximum(x, -1), 1): inactive on the assumed domain 0 < beta < pi, like
        # clip_by_value above
        for lim, other in ((a_, b_), (b_, a_)):
            if lim.is_number and not other.is_number and ((last_ == "minimum" and lim == 1) or (last_ == "maximum" and lim == -1)):
                return other
        return sp.Min(a_, b_) if last_ == "minimum" else sp.Max(a_, b_)

    hooks["numeric_call_first"] = _minmax
    tr = Translator(repo, hooks=hooks, max_depth=6, where_policy=generic_policy)
    chk.assume("SU2M euler clause: 0 < beta < pi (clip_by_value inactive, cos(beta/2), sin(beta/2) > 0); (alpha+gamma)/2 and (alpha-gamma)/2 in (-pi, pi)")

    def call(name, args, self_obj=None):
        try:
            return tr.call_fn(repo.fn(A + "SU2M." + name), args, self_obj=self_obj)
        except Unmodelled as e:
            raise AnalysisError("SU2M.%s is not a single-path kernel any more: %s" % (name, e))

    def mul(a, b):
        return call("__mul__", [b], self_obj=a)

    def mat(m):
        x = m["x"]
        return [[sp.sympify(x[i][j]) for j in range(2)] for i in range(2)]

    def oblige(text, a, b, where, construct, wrap_grid=False):
        fix = lambda e: sp.sympify(e).subs(S, sp.sqrt(1 - C ** 2)).rewrite(sp.exp) if not sp.sympify(e).has(Wrap) else sp.sympify(e).subs(S, sp.sqrt(1 - C ** 2))
        a, b = fix(a), fix(b)
        ok, detail = equal(a, b, symbols_domain={"C": (sp.Rational(1, 10), sp.Rational(9, 10))})
        if ok is not True and (a.has(Wrap) or b.has(Wrap)):
            # genuine evaluation with the true 2 pi wrap
            wit = None
            for uu, vv in itertools.product([sp.Rational(k, 10) * sp.pi for k in (-9, -6, -2, 3, 7)], repeat=2):
                def ev(e):
                    e = e.subs({u: uu, v: vv, C: sp.Rational(3, 5)})
                    e = e.replace(Wrap, lambda t: sp.Mod(t + sp.pi, 2 * sp.pi) - sp.pi)
                    return complex(sp.N(e, 30))
                if abs(ev(a) - ev(b)) > 1e-9:
                    wit = "(alpha+gamma)/2 = %s, (alpha-gamma)/2 = %s: %s vs %s" % (uu, vv, complex(round(ev(a).real, 6), round(ev(a).imag, 6)), complex(round(ev(b).real, 6), round(ev(b).imag, 6)))
                    break
            if wit is None:
                raise AnalysisError("E6-su2: %s not established symbolically and no counter-example on the grid" % text)
            ok, detail = False, "the extracted angles are wrapped to (-pi, pi] separately; " + wit
        if ok is None:
            raise AnalysisError("E6 normaliser too weak for %s: %s" % (text, detail))
        chk.oblige("E6-su2", text, ok)
        if not ok:
            f = repo.fn_opt(where)
            chk.violation("E6-su2", where, construct, "%s does not hold: %s" % (text, detail), file="tf_pwa/angle.py", line=f.lineno if f else None)

    # ---- algebra on symbolic matrices
    if "algebra" in parts:
      xs = sp.symbols("x00 x01 x10 x11")
      ys = sp.symbols("y00 y01 y10 y11")
      X = {"x": [[xs[0], xs[1]], [xs[2], xs[3]]]}
      Y = {"x": [[ys[0], ys[1]], [ys[2], ys[3]]]}
      P = mat(mul(X, Y))
      want = sp.Matrix(2, 2, xs) * sp.Matrix(2, 2, ys)
      for i in range(2):
          for j in range(2):
              oblige("(X*Y)[%d][%d] is the matrix product" % (i, j), P[i][j], want[i, j], A + "SU2M.__mul__", "mul-%d%d" % (i, j))
      I_ = mat(mul(call("inv", [], self_obj=X), X))
      det = xs[0] * xs[3] - xs[1] * xs[2]
      for i in range(2):
          for j in range(2):
              oblige("(inv(X)*X)[%d][%d] == det(X) delta" % (i, j), I_[i][j], det if i == j else 0, A + "SU2M.inv", "inv-%d%d" % (i, j))
      a, b = sp.symbols("a b", real=True)
      for gen in ("Rotation_z", "Rotation_y", "Boost_z"):
          ga, gb, gab = call(gen, [a]), call(gen, [b]), call(gen, [a + b])
          m = mat(ga)
          oblige("det %s(a) == 1" % gen, m[0][0] * m[1][1] - m[0][1] * m[1][0], 1, A + "SU2M." + gen, "det")
          prod, tot = mat(mul(ga, gb)), mat(gab)
          for i in range(2):
              for j in range(2):
                  oblige("%s(a)*%s(b) == %s(a+b) [%d][%d]" % (gen, gen, gen, i, j), prod[i][j], tot[i][j], A + "SU2M." + gen, "additive-%d%d" % (i, j))
    # ---- Euler round trip
    if "euler" not in parts:
        return
    M = mul(mul(call("Rotation_z", [u - v]), call("Rotation_y", [2 * HB])), call("Rotation_z", [u + v]))
    ang = call("get_euler_angle", [], self_obj=M)
    if not (isinstance(ang, dict) and {"alpha", "beta", "gamma"} <= set(ang)):
        raise AnalysisError("SU2M.get_euler_angle no longer returns EulerAngle(alpha, beta, gamma)")
    R = mul(mul(call("Rotation_z", [ang["gamma"]]), call("Rotation_y", [ang["beta"]])), call("Rotation_z", [ang["alpha"]]))
    Mm, Rm = mat(M), mat(R)
    for i in range(2):
        for j in range(2):
            oblige("R_z(g') R_y(b') R_z(a') == M [%d][%d] for (a', b', g') = get_euler_angle(M)" % (i, j), Rm[i][j], Mm[i][j], A + "SU2M.get_euler_angle", "euler-%d%d" % (i, j))
    # ---- the two gimbal-lock points: beta = 0 (only alpha + gamma is defined) and beta = pi (only alpha - gamma)
    for label, beta in (("beta=0", sp.Integer(0)), ("beta=pi", sp.pi)):
        M0 = mul(mul(call("Rotation_z", [u - v]), call("Rotation_y", [beta])), call("Rotation_z", [u + v]))
        ang0 = call("get_euler_angle", [], self_obj=M0)
        R0 = mul(mul(call("Rotation_z", [ang0["gamma"]]), call("Rotation_y", [ang0["beta"]])), call("Rotation_z", [ang0["alpha"]]))
        Mm0, Rm0 = mat(M0), mat(R0)
        for i in range(2):
            for j in range(2):
                oblige("%s: R_z(g') R_y(b') R_z(a') == M [%d][%d]" % (label, i, j), Rm0[i][j], Mm0[i][j], A + "SU2M.get_euler_angle", "euler-%s-%d%d" % (label, i, j), wrap_grid=True)
    # ---- the little-group element of a massless particle: it has no rest frame, its alignment matrix is triangular
    # ("rotation about the momentum" times a null translation that acts trivially on the helicity states) and is NOT
    # unitary.  The helicity must not mix: beta = 0, whatever the translation part is.
    T_ = sp.Symbol("T_", positive=True)
    Mt = {"x": [[sp.exp(-sp.I * u), sp.Integer(0)], [T_ * sp.exp(sp.I * v), sp.exp(sp.I * u)]]}
    angt = call("get_euler_angle", [], self_obj=Mt)
    try:
        bt = sp.simplify(sp.sympify(angt["beta"]))
    except (TypeError, KeyError, ValueError):
        bt = sp.nan
    okt = bt == 0
    chk.oblige("E6-su2", "get_euler_angle of a triangular (massless little-group) matrix [[e^-iu, 0], [T e^iv, e^iu]]: beta == 0 for every T", okt)
    if not okt:
        chk.violation("E6-su2", A + "SU2M.get_euler_angle", "euler-triangular", "for the triangular matrix [[e^-iu, 0], [T e^iv, e^iu]] (the alignment of a massless particle: a phase times a null translation) get_euler_angle returns beta = %s instead of 0: the helicities of a massless final-state particle are mixed, by an amount that depends on the frame - the density then depends on the reference chain and on the choice of z axis" % bt, file="tf_pwa/angle.py", line=repo.fn(A + "SU2M.get_euler_angle").lineno)
