"""C15 - line shapes equal their documented formulas.

Clauses decided (DESIGN.md section 3, C15):
  (a) Blatt-Weisskopf coefficient tables == exact |theta_L(i w)|^2      (c15_tables, E5)
  (b) Breit-Wigner family kernels == documented formula, per L            (c15_kernels, E6)
  (c) symbolic denominators are reciprocals of the numeric kernels        (c15_kernels, E6)
  (d) trivial models one / x                                              (c15_kernels, E6)
  (e) registered particle models wire parameters/keys/options as documented (c15_models, E6)
"""
from .c15_kernels import check_kernels
from .c15_models import check_models
from .c15_tables import check_bw_tables

LEVEL = "proof"


def run(repo, chk, tier):
    from ..model import AnalysisError

    from ..cacheown import check_cache_ownership

    # the polynomial table generator is memoised and consulted by the numeric and the symbolic side
    check_cache_ownership(repo, chk, ["tf_pwa/breit_wigner.py"], 1, 2)
    # the angular momentum of the running width must be this decay's own: a memoised helper keyed by particle names
    # hands a second resonance of the same name the L of the first (shared with C04 / C05)
    from ..cacheown import check_memo_soundness

    check_memo_soundness(repo, chk)
    check_bw_tables(repo, chk, tier)
    try:
        check_kernels(repo, chk, tier)
        from .c15_kernels import check_shared_momenta

        check_shared_momenta(repo, chk)
        check_models(repo, chk, tier)
        # the barrier factor of a decay vertex with each of its documented options (shared with C04)
        from .c04 import barrier_options

        barrier_options(repo, chk)
    except AnalysisError as e:
        if not chk.new_violations():
            raise
        # a table violation already explains why a kernel degenerates (e.g. a zero polynomial)
        chk.info("kernel clauses not completed after the table violation(s): %s" % e)
