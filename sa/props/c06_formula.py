"""C06 clause N-formula: the value functions `nll` equal the defining formula.

The three value-level likelihoods (BaseModel.nll, Model_cfit.nll, ModelCfitExtended.nll) are interpreted on small
abstract samples: two data events (times `resolution_size` smeared copies), two or three phase-space events, every
weight and every per-event density a free positive symbol; the amplitude / efficiency / background functions of the
model are probes that return the symbols of the sample they are handed.  The result is compared, as an exact identity,
with the formula of the property statement written down by the checker:

  default   -alpha [ sum_i W_i ln( sum_k w_ik f_ik / W_i ) - (sum_i W_i) F( sum_j v_j g_j / sum_j v_j ) ],
            W_i = sum_k w_ik, alpha = sum W / sum W^2, F = ln (or the identity when extended)
  cfit      -sum_i W_i ln[ (1-f) S_i / I_s + f B_i / I_b ],  S_i, B_i the weighted means over the smeared copies,
            I_s, I_b = sum_j v_j s_j, sum_j v_j b_j (or the plain means without phase-space weights)
  cfit ext. the cfit sum (no smearing) - (sum w) ln(I_s / (1-f)) + I_s / (1-f)"""
import numpy as np
import sympy as sp

from ..model import AnalysisError
from ..sym import PyFunc, SelfObj, Translator, Unmodelled, equal

MODEL = "tf_pwa/model/model.py"
CFIT = "tf_pwa/model/cfit.py"


def _arr(prefix, n):
    return np.array(sp.symbols("%s1:%d" % (prefix, n + 1), positive=True), dtype=object)


def _policy(cond, tr):
    # weights are positive: `weight == 0` is false; densities are above the clip threshold
    if isinstance(cond, sp.Equality):
        return False
    if isinstance(cond, (sp.StrictGreaterThan, sp.GreaterThan)) and cond.rhs.is_number:
        return True
    return None


def check_nll_formula(repo, chk):
    chk.rule("N-formula", "BaseModel.nll / Model_cfit.nll / ModelCfitExtended.nll interpreted on abstract samples (2 events x resolution_size smeared copies, weights and per-event densities free positive symbols, model functions as probes) equal the defining formula of the statement - default and extended, with and without resolution smearing, with and without phase-space weights (exact identity)")
    n_obl = 0

    def log_hook(tr, a):
        return sp.log(sp.sympify(a))

    def cmp(label, fn, got, want, file):
        nonlocal n_obl
        ok, detail = equal(sp.sympify(got), sp.sympify(want))
        if ok is None:
            raise AnalysisError("E6 normaliser too weak for %s: %s" % (label, detail))
        n_obl += 1
        chk.oblige("N-formula", label, ok)
        if not ok:
            chk.violation("N-formula", fn.key, label.split(":")[0], "%s does not hold: the code evaluates to %s, the defining formula is %s (%s)" % (label, got, want, detail), file=file, line=fn.lineno)

    # ---------------------------------------------------------------- default likelihood
    bm = repo.cls(MODEL + "::BaseModel")
    fn = bm.methods.get("nll")
    if fn is None:
        raise AnalysisError("anchor vanished: BaseModel.nll")
    clip = repo.fn_opt(MODEL + "::clip_log") if hasattr(repo, "fn_opt") else None
    for r, zero_event in ((1, False), (2, False), (2, True)):
        for extended in (False, True):
            n_ev = 2
            w = _arr("w", n_ev * r)
            if zero_event:
                # the smeared copies of the first event all carry weight 0 (a vanishing sWeight): the event drops out
                w = np.array([sp.Integer(0)] * r + list(w[r:]), dtype=object)
            f = _arr("f", n_ev * r)
            v = _arr("v", 3)
            g = _arr("g", 3)
            data = {"weight": w, "tag": "data"}
            mc = {"weight": v, "tag": "mc"}

            def signal(d, _data=data, _f=f, _g=g):
                return _f if d is _data else _g

            F = (lambda x: x) if extended else (lambda x: sp.log(sp.sympify(x)))
            hooks = {"allow_attr_store": True, "allow_shape": True, "unary:log": log_hook, "stack_as_array": True}
            if clip is not None:
                # clip_log is the logarithm above its threshold and a finite continuation below it (decided by D-safelog):
                # at exactly 0 it returns a finite number, here the symbol CLIP0
                hooks[clip.key] = lambda tr, args, kwargs, node: np.array([(sp.Symbol("CLIP0", real=True) if sp.sympify(x) == 0 else sp.log(sp.sympify(x))) for x in np.asarray(args[0], dtype=object).reshape(-1)], dtype=object)
            for gname in ("data_shape",):
                for gfn in repo.func_by_name.get(gname, []):
                    hooks[gfn.key] = lambda tr, args, kwargs, node: sp.Integer(len(args[0]["weight"]))
            so = SelfObj(bm, {"signal": PyFunc(signal), "resolution_size": sp.Integer(r), "int_f": PyFunc(F), "extended": extended})
            tr = Translator(repo, hooks=hooks, where_policy=_policy, max_depth=3)
            try:
                got = tr.call_fn(fn, [data, mc], self_obj=so)
            except Unmodelled as e:
                raise AnalysisError("BaseModel.nll cannot be interpreted (resolution_size=%d, extended=%s): %s" % (r, extended, e))
            W = [sum(w[i * r + k] for k in range(r)) for i in range(n_ev)]
            A = [sum(w[i * r + k] * f[i * r + k] for k in range(r)) for i in range(n_ev)]
            sw = sum(W)
            alpha = sw / sum(x ** 2 for x in W)
            int_mc = sum(v[j] * g[j] for j in range(3)) / sum(v)
            want = -alpha * (sum(W[i] * sp.log(A[i] / W[i]) for i in range(n_ev) if W[i] != 0) - sw * F(int_mc))
            cmp("default%s, resolution_size=%d%s: nll == -alpha [sum W ln(sum w f / W) - (sum W) F(int)]" % (" extended" if extended else "", r, ", first event of total weight 0" if zero_event else "", ), fn, got, want, MODEL)

    # ---------------------------------------------------------------- cfit
    for ckey, ext in ((CFIT + "::Model_cfit", False), (CFIT + "::ModelCfitExtended", True)):
        cls = repo.cls(ckey)
        fn = cls.methods.get("nll")
        if fn is None:
            raise AnalysisError("anchor vanished: %s.nll" % ckey)
        for r in ((1,) if ext else (1, 2)):
            for weighted in (False, True):
                n_ev = 2
                w = _arr("w", n_ev * r)
                s, b = _arr("s", n_ev * r), _arr("b", n_ev * r)
                v = _arr("v", 3)
                sm, bmc = _arr("S", 3), _arr("B", 3)
                fb = sp.Symbol("fbg", positive=True)
                data, mc = {"tag": "data"}, {"tag": "mc"}
                sig = PyFunc(lambda d, _d=data, _s=s, _m=sm: _s if d is _d else _m)
                bg = PyFunc(lambda d, _d=data, _b=b, _m=bmc: _b if d is _d else _m)
                hooks = {"allow_attr_store": True, "allow_shape": True, "unary:log": log_hook, "stack_as_array": True,
                         "numeric_call_first": lambda tr, d_, args, kwargs, n: (args[0] if d_.split(".")[-1] == "cast" and args else NotImplemented)}
                for c in cls.mro:
                    g_ = c.methods.get("get_weight_data")
                    if g_ is not None:
                        hooks[g_.key] = lambda tr, args, kwargs, node, _g=g_: (lambda b_: (b_.get("data"), b_.get("weight")))(Translator.bound_args(_g, args, kwargs))
                so = SelfObj(cls, {"sig": sig, "bg": bg, "w_bkg": fb, "resolution_size": sp.Integer(r)})
                tr = Translator(repo, hooks=hooks, where_policy=_policy, max_depth=3)
                try:
                    got = tr.call_fn(fn, [data, mc], {"weight": w, "mc_weight": (v if weighted else None)}, self_obj=so)
                except Unmodelled as e:
                    raise AnalysisError("%s.nll cannot be interpreted (resolution_size=%d, phase-space weights %s): %s" % (ckey, r, weighted, e))
                if weighted:
                    I_s, I_b = sum(v[j] * sm[j] for j in range(3)), sum(v[j] * bmc[j] for j in range(3))
                else:
                    I_s, I_b = sum(sm) / 3, sum(bmc) / 3
                W = [sum(w[i * r + k] for k in range(r)) for i in range(n_ev)]
                S = [sum(w[i * r + k] * s[i * r + k] for k in range(r)) / W[i] for i in range(n_ev)]
                Bv = [sum(w[i * r + k] * b[i * r + k] for k in range(r)) / W[i] for i in range(n_ev)]
                want = -sum(W[i] * sp.log((1 - fb) * S[i] / I_s + fb * Bv[i] / I_b) for i in range(n_ev))
                if ext:
                    want = want - sum(W) * sp.log(I_s / (1 - fb)) + I_s / (1 - fb)
                cmp("%s, resolution_size=%d, phase-space weights %s: nll == mixture formula%s" % (cls.name, r, "given" if weighted else "absent", " + extended terms" if ext else ""), fn, got, want, CFIT)
    if n_obl < 10:
        raise AnalysisError("N-formula: only %d obligations generated" % n_obl)


def check_batch_sum(repo, chk, rule="N-batchsum"):
    """the per-batch sum behind nll_grad / nll_grad_hessian: sum over events of W_i T(sum_k w_ik f_ik / W_i)"""
    fn = repo.fn(MODEL + "::_batch_sum")
    chk.rule(rule, "_batch_sum (the per-batch term of sum_gradient / sum_hessian / sum_grad_hessp) interpreted on two events x resolution_size smeared copies with the model, the transform T and the weights as probes - all weights free positive symbols, and the copies of the first event all of weight 0 (a vanishing sWeight): the result is sum_i W_i T(sum_k w_ik f_ik / W_i) with W_i = sum_k w_ik, an event of total weight 0 contributing nothing")
    T = sp.Function("T")
    n = 0
    for r in (1, 2):
        for zero_event in (False, True):
            n_ev = 2
            w = _arr("w", n_ev * r)
            if zero_event:
                w = np.array([sp.Integer(0)] * r + list(w[r:]), dtype=object)
            f = _arr("f", n_ev * r)

            def trans(x):
                return np.array([T(sp.sympify(v)) for v in np.asarray(x, dtype=object).reshape(-1)], dtype=object)

            hooks = {"allow_shape": True, "stack_as_array": True, "concrete_zeros": True}
            gs = repo.fn_opt(MODEL + "::get_shape") if hasattr(repo, "fn_opt") else None
            if gs is not None:
                hooks[gs.key] = lambda tr_, a_, k_, n_: tuple(sp.Integer(d_) for d_ in np.asarray(a_[0], dtype=object).shape)
            tr = Translator(repo, hooks=hooks, where_policy=_policy, max_depth=2)
            try:
                got = tr.call_fn(fn, [PyFunc(lambda d, *a, **k: f), {"tag": "data"}, w, PyFunc(trans), sp.Integer(r), [], {}])
            except Unmodelled as e:
                raise AnalysisError("_batch_sum cannot be interpreted (resolution_size=%d%s): %s" % (r, ", zero-weight event" if zero_event else "", e))
            W = [sum(w[i * r + k] for k in range(r)) for i in range(n_ev)]
            A = [sum(w[i * r + k] * f[i * r + k] for k in range(r)) for i in range(n_ev)]
            want = sum(W[i] * T(A[i] / W[i]) for i in range(n_ev) if W[i] != 0)
            try:
                same = sp.simplify(sp.sympify(got) - want) == 0
            except (TypeError, ValueError):
                same = False
            n += 1
            label = "resolution_size=%d%s" % (r, ", first event of total weight 0" if zero_event else "")
            chk.oblige(rule, "_batch_sum, %s: sum_i W_i T(sum_k w f / W_i)" % label, same)
            if not same:
                chk.violation(rule, fn.key, label, "_batch_sum (%s) evaluates to %s, expected %s: the gradient-side likelihood no longer is the weighted sum of the statement (an event whose smeared copies sum to weight 0 must drop out; nll_grad then differs from nll)" % (label, got, want), file=MODEL, line=fn.lineno)
    chk.require_count(rule, 4)


def check_cache_atomic(repo, chk, prefixes, rule="K-atomic", min_sites=1):
    """an entry of a persistent cache is registered when it is complete"""
    import ast

    from ..model import norm_text

    chk.rule(rule, "an entry stored in a persistent cache of the model object (self.<...cache...>[key] = value, found again by `key in self.<cache>` on the next call) is complete when it is registered: the stored container is not filled afterwards through a local alias - a step of the filling that raises (memory, an interrupted evaluation) would leave a partial entry that the next call takes for the whole sample")
    n_sites = 0
    for rel, m in sorted(repo.mods.items()):
        if "/tests/" in rel or not any(rel.startswith(p) for p in prefixes):
            continue
        for f in m.funcs.values():
            body_nodes = [n for n in ast.walk(f.node)]
            for st in body_nodes:
                if not isinstance(st, ast.Assign):
                    continue
                cache_t = [t for t in st.targets if isinstance(t, ast.Subscript) and isinstance(t.value, ast.Attribute) and "cache" in t.value.attr.lower() and norm_text(t.value).startswith("self.")]
                if not cache_t:
                    continue
                n_sites += 1
                aliases = {t.id for t in st.targets if isinstance(t, ast.Name)}
                if isinstance(st.value, ast.Name):
                    aliases.add(st.value.id)
                late = []
                # a later plain rebinding of the local name (`c_data = []` for the next entry) ends the alias
                rebound = {}
                for n in body_nodes:
                    if isinstance(n, (ast.Assign, ast.AnnAssign, ast.For)) and getattr(n, "lineno", 0) > st.end_lineno:
                        ts_ = n.targets if isinstance(n, ast.Assign) else [n.target]
                        for t in ts_:
                            for x in ast.walk(t):
                                if isinstance(x, ast.Name) and isinstance(x.ctx, ast.Store) and x.id in aliases:
                                    rebound[x.id] = min(rebound.get(x.id, 10 ** 9), n.lineno)
                for n in body_nodes:
                    if getattr(n, "lineno", 0) <= st.end_lineno:
                        continue
                    if isinstance(n, ast.Call) and isinstance(n.func, ast.Attribute) and isinstance(n.func.value, ast.Name) and n.lineno > rebound.get(n.func.value.id, 10 ** 9):
                        continue
                    if isinstance(n, (ast.Assign, ast.AugAssign)) and any(isinstance(t, ast.Subscript) and isinstance(t.value, ast.Name) and n.lineno > rebound.get(t.value.id, 10 ** 9) for t in (n.targets if isinstance(n, ast.Assign) else [n.target])):
                        continue
                    if isinstance(n, ast.Call) and isinstance(n.func, ast.Attribute) and n.func.attr in ("append", "extend", "insert", "update", "setdefault", "add") and isinstance(n.func.value, ast.Name) and n.func.value.id in aliases:
                        late.append(n)
                    elif isinstance(n, ast.Call) and isinstance(n.func, ast.Attribute) and n.func.attr in ("append", "extend", "insert", "update") and norm_text(n.func.value) == norm_text(cache_t[0]):
                        late.append(n)
                    elif isinstance(n, (ast.Assign, ast.AugAssign)):
                        for t in (n.targets if isinstance(n, ast.Assign) else [n.target]):
                            if isinstance(t, ast.Subscript) and isinstance(t.value, ast.Name) and t.value.id in aliases:
                                late.append(n)
                chk.instance(rule, "%s: `%s` registered at line %d, %d later fill(s) of the registered container" % (f.key, norm_text(cache_t[0]), st.lineno, len(late)), nontrivial=True)
                for n in late[:1]:
                    chk.violation(rule, f.key, "late-fill:%s" % norm_text(cache_t[0]), "`%s` is registered at line %d and filled afterwards (`%s`): if a step of the filling raises, the partial entry stays in the cache and the next call (same key) evaluates the likelihood on part of the sample without noticing" % (norm_text(cache_t[0]), st.lineno, norm_text(n)[:70]), file=rel, line=n.lineno)
    if n_sites < min_sites:
        raise AnalysisError("%s: %d cache registrations under %s (expected at least %d)" % (rule, n_sites, prefixes, min_sites))
    chk.require_count(rule, min_sites)
