"""C02 - bookkeeping conventions: OPTION FORWARDING BY NAME (the only clause decided).

The user-selectable conventions of the angle calculation (the option parameters
of ``cal_angle_from_momentum``: using_topology, center_mass, r_boost, random_z,
batch, align_ref, only_left_angle) must reach the code that implements them
under their own name.  Along

  SimpleData.__init__ -> create_preprocessor -> <registered preprocessor>.__init__
  -> BasePreProcessor.__call__ -> cal_angle_from_momentum (-> LazyCall re-entry)
  -> cal_angle_from_momentum_id_swap -> cal_angle_from_momentum_base
  -> cal_angle_from_momentum_single -> struct_momentum / cal_angle_from_particle
  (and P4DirectlyAmplitudeModel.cal_angle -> cal_angle_from_momentum,
   NpzData.load_data -> cal_angle_from_momentum)

every argument whose value *is* an option named N (the caller's own parameter N,
a local read from ``<dict>.get("N", ..)`` / ``<dict>["N"]``, ``self.N``) must bind -
positionally or by keyword, resolved against the callee's signature - the callee
parameter N.  Literal option-name lists that copy options from a config dict
into ``**kwargs`` must name parameters of the function they are splatted into,
must agree with each other and must contain the frozen minimum set.

Nothing here imports tf_pwa.  Equivalence of the conventions themselves is
numerical and is not decided.
"""
import ast

from ..model import AnalysisError, bind_call, const_value, dotted, norm_text, walk_local, walk_stmt
from ..resolve import Resolver

CAL = "tf_pwa/cal_angle.py"
PRE = "tf_pwa/amp/preprocess.py"
DATA = "tf_pwa/config_loader/data.py"
AMP = "tf_pwa/amp/amp.py"
XDATA = "tf_pwa/experimental/extra_data.py"
LOADER = "tf_pwa/config_loader/config_loader.py"

ENTRY = CAL + "::cal_angle_from_momentum"

# parameters of the entry point that carry event data, not a convention
DATA_PARAMS = {"p", "decs"}

# options that cal_angle_from_momentum implements today (confirmed by reading the
# signature and the `if <option>` / `== "center_mass"` / split_generator(p, batch)
# uses further down the chain).  A vanished one is a violation, not an error.
IMPLEMENTED_MIN = {
    "using_topology", "center_mass", "r_boost", "random_z", "batch", "align_ref", "only_left_angle",
}

# options that the data section of config.yml documents / the shipped test
# configurations use (center_mass, r_boost, random_z, align_ref, only_left_angle)
# and that SimpleData.__init__ reads from the dict: the literal option lists of
# the default preprocessor and of the p4_directly amplitude model must contain
# each of them.  (`batch` and `using_topology` are *not* configurable through
# the data section today: they are absent from both literal lists.)
CONFIG_LIST_MIN = {"center_mass", "r_boost", "random_z", "align_ref", "only_left_angle"}

# functions whose option parameters are bound at call sites (callees of the chain)
TARGETS = [
    ENTRY,
    CAL + "::cal_angle_from_momentum_id_swap",
    CAL + "::cal_angle_from_momentum_base",
    CAL + "::cal_angle_from_momentum_single",
    CAL + "::cal_angle_from_particle",
    CAL + "::struct_momentum",
    PRE + "::create_preprocessor",
]

# (caller, callee, minimal number of call sites) - fail closed if an edge vanished
REQUIRED_EDGES = [
    (DATA + "::SimpleData.__init__", PRE + "::create_preprocessor", 1),
    (CAL + "::cal_angle_from_momentum", CAL + "::cal_angle_from_momentum", 1),  # LazyCall re-entry
    (CAL + "::cal_angle_from_momentum", CAL + "::cal_angle_from_momentum_id_swap", 2),
    (CAL + "::cal_angle_from_momentum_id_swap", CAL + "::cal_angle_from_momentum_base", 2),
    (CAL + "::cal_angle_from_momentum_base", CAL + "::cal_angle_from_momentum_single", 2),
    (CAL + "::cal_angle_from_momentum_single", CAL + "::struct_momentum", 1),
    (CAL + "::cal_angle_from_momentum_single", CAL + "::cal_angle_from_particle", 1),
]

# functions that copy options through a literal name list into **kwargs
LIST_FORWARDERS = [
    PRE + "::BasePreProcessor.__call__",
    AMP + "::P4DirectlyAmplitudeModel.cal_angle",
]

SCAN_MODS = [CAL, PRE, DATA, AMP, XDATA]

MIN_FWD = 65  # observed today: 68 = 58 option bindings on the core chain + 3 in experimental NpzData.load_data
#               + 2 **kwargs pass-throughs + 5 registered preprocessor constructors (the NpzData ones may vanish)
MIN_LIST = 10  # 2 literal lists x 5 names


# --------------------------------------------------------------------- helpers
def _kwarg_name(fn):
    a = fn.node.args
    return a.kwarg.arg if a.kwarg else None


def _assignments(fn, name):
    """all values assigned to the plain local `name` in fn (None for non-simple stores)"""
    vals = []
    for n in walk_local(fn.node):
        if isinstance(n, ast.Assign):
            for t in n.targets:
                if isinstance(t, ast.Name) and t.id == name:
                    vals.append(n.value)
                elif isinstance(t, (ast.Tuple, ast.List)):
                    for e in ast.walk(t):
                        if isinstance(e, ast.Name) and e.id == name:
                            vals.append(None)
        elif isinstance(n, (ast.AugAssign, ast.AnnAssign)) and isinstance(n.target, ast.Name) and n.target.id == name:
            vals.append(n.value if isinstance(n, ast.AnnAssign) else None)
        elif isinstance(n, (ast.For, ast.comprehension)):
            for e in ast.walk(n.target):
                if isinstance(e, ast.Name) and e.id == name:
                    vals.append(None)
        elif isinstance(n, ast.withitem) and n.optional_vars is not None:
            for e in ast.walk(n.optional_vars):
                if isinstance(e, ast.Name) and e.id == name:
                    vals.append(None)
    return vals


def origin_name(fn, expr, depth=0):
    """the option name an argument expression carries, or None.

    parameter N -> N ; self.N -> N ; X.get("N", ..) / X["N"] / X.pop("N", ..) -> N ;
    a local all of whose assignments carry the same name -> that name.
    """
    if isinstance(expr, ast.Name):
        if expr.id in fn.all_param_names():
            return expr.id
        if depth > 3:
            return None
        vals = _assignments(fn, expr.id)
        if not vals or any(v is None for v in vals):
            return None
        names = {origin_name(fn, v, depth + 1) for v in vals}
        if len(names) == 1:
            return names.pop()
        return None
    if isinstance(expr, ast.Attribute) and isinstance(expr.value, ast.Name) and expr.value.id == "self":
        return expr.attr
    if isinstance(expr, ast.Call) and isinstance(expr.func, ast.Attribute) and expr.func.attr in ("get", "pop") and expr.args:
        k = const_value(expr.args[0])
        if isinstance(k, str):
            return k
        return None
    if isinstance(expr, ast.Subscript):
        k = const_value(expr.slice)
        if isinstance(k, str):
            return k
    return None


def _is_registry_call(call):
    """get_config(X)[mode](...)"""
    return isinstance(call.func, ast.Subscript)


class Site:
    def __init__(self, caller, callee, call, via, synth):
        self.caller, self.callee, self.call, self.via, self.synth = caller, callee, call, via, synth
        self.ordinal = 1  # n-th call site of this caller to this callee, in source order


def find_sites(repo, res, targets):
    """every call site, in the scanned modules, whose callee is one of `targets`
    (directly, or wrapped as LazyCall(HeavyCall(f), x, ...) / LazyCall(f, x, ...))"""
    tset = set(targets)
    sites = []
    for rel in SCAN_MODS:
        m = repo.mods.get(rel)
        if m is None:
            if rel == XDATA:
                continue
            raise AnalysisError("anchor vanished: module %s" % rel)
        for f in m.funcs.values():
            for n in walk_local(f.node):
                if not isinstance(n, ast.Call):
                    continue
                if isinstance(n.func, ast.Name) and n.func.id == "LazyCall" and n.args:
                    inner = n.args[0]
                    if isinstance(inner, ast.Call) and isinstance(inner.func, ast.Name) and inner.func.id == "HeavyCall" and inner.args:
                        inner = inner.args[0]
                    d = dotted(inner)
                    if d and "." not in d:
                        g = res.resolve_toplevel_name(f.mod, d)
                        if g in tset:
                            synth = ast.Call(func=inner, args=list(n.args[1:]), keywords=list(n.keywords))
                            sites.append(Site(f, g, n, "LazyCall", synth))
                    continue
                if not isinstance(n.func, (ast.Name, ast.Attribute)):
                    continue
                cands, how = res.resolve_call(f, n)
                for g in cands:
                    if g in tset:
                        sites.append(Site(f, g, n, how, n))
    return sites


def _unroll_dictcomp(f, d):
    """{K: V for <targets> in <literal table>}: the (key, value expression) pairs, the loop variables replaced by the
    constants of each table row; None if the table is not a literal (directly or through one local name)"""
    import copy

    gen = d.generators[0]
    src = gen.iter
    if isinstance(src, ast.Name):
        defs = _assignments(f, src.id)
        if len(defs) != 1 or defs[0] is None:
            return None
        src = defs[0]
    if not isinstance(src, (ast.Tuple, ast.List)):
        return None
    pairs = []
    for row in src.elts:
        env = {}
        if isinstance(gen.target, ast.Name):
            env[gen.target.id] = row
        elif isinstance(gen.target, (ast.Tuple, ast.List)) and isinstance(row, (ast.Tuple, ast.List)) and len(row.elts) == len(gen.target.elts) and all(isinstance(t, ast.Name) for t in gen.target.elts):
            env = {t.id: e for t, e in zip(gen.target.elts, row.elts)}
        else:
            return None

        class Sub(ast.NodeTransformer):
            def visit_Name(self, node):
                if isinstance(node.ctx, ast.Load) and node.id in env:
                    return copy.deepcopy(env[node.id])
                return node

        k = Sub().visit(copy.deepcopy(d.key))
        v = ast.fix_missing_locations(ast.copy_location(Sub().visit(copy.deepcopy(d.value)), d.value))
        if not isinstance(const_value(k), str):
            return None
        pairs.append((const_value(k), v))
    return pairs or None


def expand_kwstar(f, call):
    """`g(**opts)` where the local `opts` is assigned once from dict(k=v, ...) or {"k": v, ...} with constant string
    keys (and never stored into afterwards) is the same call with explicit keywords k=v"""
    new_args, star_changed = [], False
    for a in call.args:
        if isinstance(a, ast.Starred) and isinstance(a.value, ast.Name):
            defs = _assignments(f, a.value.id)
            if len(defs) == 1 and isinstance(defs[0], (ast.Tuple, ast.List)) and not any(isinstance(e, ast.Starred) for e in defs[0].elts):
                new_args.extend(defs[0].elts)
                star_changed = True
                continue
        new_args.append(a)
    if star_changed:
        call = ast.fix_missing_locations(ast.copy_location(ast.Call(func=call.func, args=new_args, keywords=list(call.keywords)), call))
    if not any(kw.arg is None for kw in call.keywords):
        return call
    new_kw = []
    changed = False
    for kw in call.keywords:
        if kw.arg is None and isinstance(kw.value, ast.Name):
            defs = _assignments(f, kw.value.id)
            mutated = any(
                isinstance(n, (ast.Assign, ast.AugAssign, ast.Delete)) and any(isinstance(t, ast.Subscript) and isinstance(t.value, ast.Name) and t.value.id == kw.value.id for t in (n.targets if isinstance(n, (ast.Assign, ast.Delete)) else [n.target]))
                or (isinstance(n, ast.Call) and isinstance(n.func, ast.Attribute) and isinstance(n.func.value, ast.Name) and n.func.value.id == kw.value.id and n.func.attr in ("update", "pop", "setdefault", "clear", "popitem"))
                for n in walk_local(f.node)
            )
            if len(defs) == 1 and defs[0] is not None and not mutated:
                d = defs[0]
                pairs = None
                if isinstance(d, ast.Call) and isinstance(d.func, ast.Name) and d.func.id == "dict" and not d.args and all(k.arg is not None for k in d.keywords):
                    pairs = [(k.arg, k.value) for k in d.keywords]
                elif isinstance(d, ast.Dict) and d.keys and all(isinstance(const_value(k), str) for k in d.keys if k is not None) and all(k is not None for k in d.keys):
                    pairs = [(const_value(k), v) for k, v in zip(d.keys, d.values)]
                elif isinstance(d, ast.DictComp) and len(d.generators) == 1 and not d.generators[0].ifs:
                    pairs = _unroll_dictcomp(f, d)
                if pairs is not None:
                    for k, v in pairs:
                        new_kw.append(ast.keyword(arg=k, value=v))
                    changed = True
                    continue
        new_kw.append(kw)
    if not changed:
        return call
    out = ast.Call(func=call.func, args=list(call.args), keywords=new_kw)
    ast.copy_location(out, call)
    ast.fix_missing_locations(out)
    return out


# ------------------------------------------------------------------- the rules
def check_site(chk, site, options):
    """E3-fwd / E3-complete at one call site; returns number of bindings checked"""
    f, g, call = site.caller, site.callee, expand_kwstar(site.caller, site.synth)
    where = f.key
    tag = "%s -> %s#%d" % (f.qual, g.qual, site.ordinal) + (" [via LazyCall]" if site.via == "LazyCall" else "")
    bound, extra, has_star, has_kwstar = bind_call(call, g)
    if has_star:
        raise AnalysisError("%s: *args at a forwarding call cannot be bound by name: %s" % (where, norm_text(call)[:120]))
    g_params = set(g.all_param_names())
    g_kwarg = _kwarg_name(g)
    n = 0
    if extra:
        chk.violation(
            "E3-fwd", where, "%s:extra-positional" % g.qual,
            "%d positional argument(s) beyond the signature of %s" % (len(extra), g.qual),
            file=f.mod.rel, line=site.call.lineno,
        )
    caller_opts = set(f.all_param_names()) & options
    for m_name, expr in bound.items():
        n_name = origin_name(f, expr)
        is_kw_passthrough = m_name not in g_params
        if is_kw_passthrough and g_kwarg is None:
            if m_name in options or (n_name in options):
                chk.violation(
                    "E3-fwd", where, "%s:%s" % (g.qual, m_name),
                    "keyword `%s=%s` names no parameter of %s" % (m_name, norm_text(expr), g.qual),
                    file=f.mod.rel, line=site.call.lineno,
                )
            continue
        if n_name is None:
            if m_name in options and m_name in caller_opts:
                chk.violation(
                    "E3-complete", where, "%s:%s" % (g.qual, m_name),
                    "option `%s` of %s is bound to `%s` although the caller receives its own `%s`: the user's choice is dropped"
                    % (m_name, g.qual, norm_text(expr), m_name),
                    file=f.mod.rel, line=site.call.lineno,
                )
            elif m_name in options:
                chk.info("%s: option `%s` fixed to `%s` by a caller that has no such option" % (tag, m_name, norm_text(expr)))
            continue
        if n_name not in options and m_name not in options:
            continue
        n += 1
        slot = "**%s['%s']" % (g_kwarg, m_name) if is_kw_passthrough else m_name
        chk.instance("E3-fwd", "%s: `%s` (option %s) binds %s" % (tag, norm_text(expr), n_name, slot))
        if n_name != m_name:
            chk.violation(
                "E3-fwd", where, "%s:%s<-%s" % (g.qual, m_name, n_name),
                "argument `%s` carries option `%s` but binds parameter `%s` of %s" % (norm_text(expr), n_name, m_name, g.qual),
                file=f.mod.rel, line=site.call.lineno,
            )
    # completeness: an option both sides know must be handed on
    if not has_kwstar:
        for m_name in sorted((g_params & options) & caller_opts):
            if m_name not in bound:
                chk.instance("E3-fwd", "%s: option `%s` known to both sides - NOT PASSED" % (tag, m_name))
                chk.violation(
                    "E3-complete", where, "%s:%s" % (g.qual, m_name),
                    "caller has option `%s` but does not pass it to %s: the callee default silently replaces the user's choice"
                    % (m_name, g.qual),
                    file=f.mod.rel, line=site.call.lineno,
                )
    else:
        # **kwargs of the caller handed on unchanged: names are preserved by construction
        kws = [kw.value for kw in call.keywords if kw.arg is None]
        for v in kws:
            if isinstance(v, ast.Name) and v.id == _kwarg_name(f):
                chk.instance("E3-fwd", "%s: caller's own **%s handed on (names preserved)" % (tag, v.id), nontrivial=False)
                n += 1
    return n


def _literal_names(fn, expr):
    """a literal list/tuple of strings, given directly or through a local / module-level name"""
    if isinstance(expr, (ast.List, ast.Tuple)):
        vals = [const_value(e) for e in expr.elts]
        if vals and all(isinstance(v, str) for v in vals):
            return vals
        return None
    if isinstance(expr, ast.Name):
        defs = _assignments(fn, expr.id)
        if len(defs) == 1:
            return _literal_names(fn, defs[0])
        if not defs and expr.id in fn.mod.toplevel_assign:
            return _literal_names(fn, fn.mod.toplevel_assign[expr.id])
    return None


def literal_option_loop(fn):
    """find   for k in <names>: [if k in SRC:] DST[k] = SRC[k]
       or     DST = {k: SRC[k] for k in <names> [if k in SRC]}
    where <names> is a literal list/tuple of strings (possibly through a local or module constant).
    returns (names, dst local name, src expr, node, form) or raises"""
    found = []
    for n in walk_local(fn.node):
        if isinstance(n, ast.For) and isinstance(n.target, ast.Name):
            vals = _literal_names(fn, n.iter)
            if vals is None:
                continue
            k = n.target.id
            copies = []
            other = []
            for st in n.body:
                for s in walk_stmt(st):
                    if isinstance(s, ast.Assign):
                        t = s.targets[0]
                        ok = (
                            len(s.targets) == 1
                            and isinstance(t, ast.Subscript)
                            and isinstance(t.value, ast.Name)
                            and isinstance(t.slice, ast.Name)
                            and t.slice.id == k
                            and isinstance(s.value, ast.Subscript)
                            and isinstance(s.value.slice, ast.Name)
                            and s.value.slice.id == k
                        )
                        if ok:
                            copies.append((t.value.id, s.value.value))
                        else:
                            other.append(s)
            if copies:
                found.append((vals, copies, other, n, "loop"))
        elif isinstance(n, ast.Assign) and len(n.targets) == 1 and isinstance(n.targets[0], ast.Name) and isinstance(n.value, ast.DictComp):
            dc = n.value
            if len(dc.generators) != 1 or not isinstance(dc.generators[0].target, ast.Name):
                continue
            g = dc.generators[0]
            vals = _literal_names(fn, g.iter)
            if vals is None:
                continue
            k = g.target.id
            if isinstance(dc.key, ast.Name) and dc.key.id == k and isinstance(dc.value, ast.Subscript) and isinstance(dc.value.slice, ast.Name) and dc.value.slice.id == k:
                src = dc.value.value
                # the only admissible filter is `k in SRC`
                other = [c for c in g.ifs if norm_text(c) != "%s in %s" % (k, norm_text(src))]
                found.append((vals, [(n.targets[0].id, src)], other, n, "comp"))
    if len(found) != 1:
        raise AnalysisError("%s: expected exactly one literal option-name copy (loop or dict comprehension), found %d" % (fn.key, len(found)))
    vals, copies, other, node, form = found[0]
    if other or len(copies) != 1:
        raise AnalysisError(
            "%s: option copy is not of the shape `for k in [..]: DST[k] = SRC[k]` / `{k: SRC[k] for k in [..] if k in SRC}` (%s)"
            % (fn.key, "; ".join(norm_text(o) for o in other) or "%d copies" % len(copies))
        )
    dst, src = copies[0]
    return vals, dst, src, node, form


def check_list_forwarder(repo, res, chk, key, entry, options):
    fn = repo.fn(key)
    names, dst, src, loop, form = literal_option_loop(fn)
    # DST must start empty (or be the comprehension itself) and be splatted into the entry point
    inits = _assignments(fn, dst)
    if form == "loop":
        if len(inits) != 1 or not (isinstance(inits[0], ast.Dict) and not inits[0].keys):
            raise AnalysisError("%s: option dict `%s` is not initialised once as {}" % (key, dst))
    elif len(inits) != 1:
        raise AnalysisError("%s: option dict `%s` is assigned more than once" % (key, dst))
    splat_calls = []
    for n in walk_local(fn.node):
        if isinstance(n, ast.Call):
            for kw in n.keywords:
                if kw.arg is None and isinstance(kw.value, ast.Name) and kw.value.id == dst:
                    splat_calls.append(n)
    if len(splat_calls) != 1:
        raise AnalysisError("%s: option dict `%s` is splatted into %d calls (expected 1)" % (key, dst, len(splat_calls)))
    call = splat_calls[0]
    cands, how = res.resolve_call(fn, call)
    if entry not in cands:
        chk.violation(
            "E3-list", key, "**%s" % dst,
            "the copied options are passed to `%s`, not to cal_angle_from_momentum" % norm_text(call.func),
            file=fn.mod.rel, line=call.lineno,
        )
        return set(names)
    bound, extra, has_star, has_kwstar = bind_call(call, entry)
    g_params = set(entry.all_param_names())
    if len(set(names)) != len(names):
        chk.violation("E3-list", key, "duplicate", "duplicate name in the literal option list %s" % names, file=fn.mod.rel, line=loop.lineno)
    for nm in names:
        chk.instance("E3-list", "%s: listed option '%s' -> %s(**%s) parameter '%s' (source %s)" % (fn.qual, nm, entry.qual, dst, nm, norm_text(src)))
        if nm not in g_params:
            chk.violation(
                "E3-list", key, "list:%s" % nm,
                "listed option '%s' is not a parameter of %s (TypeError or silently ignored)" % (nm, entry.qual),
                file=fn.mod.rel, line=loop.lineno,
            )
        elif nm not in options:
            chk.violation(
                "E3-list", key, "list:%s" % nm,
                "listed name '%s' is a data parameter of %s, not an option" % (nm, entry.qual),
                file=fn.mod.rel, line=loop.lineno,
            )
        if nm in bound:
            chk.violation(
                "E3-list", key, "list:%s" % nm,
                "option '%s' is both copied into **%s and bound explicitly (`%s`)" % (nm, dst, norm_text(bound[nm])),
                file=fn.mod.rel, line=call.lineno,
            )
    for nm in sorted(CONFIG_LIST_MIN - set(names)):
        chk.instance("E3-list", "%s: configurable option '%s' must be listed - MISSING" % (fn.qual, nm))
        chk.violation(
            "E3-list", key, "missing:%s" % nm,
            "configurable option '%s' is missing from the literal option list %s: the value in the data section never reaches cal_angle_from_momentum"
            % (nm, names),
            file=fn.mod.rel, line=loop.lineno,
        )
    return set(names), src


def check_registry(repo, res, chk, options):
    """create_preprocessor(decay_group, **kwargs) -> get_config(..)[mode](decay_group, **kwargs)
    -> every registered preprocessor's __init__ chain ends in `self.kwargs = kwargs`"""
    cp = repo.fn(PRE + "::create_preprocessor")
    kw = _kwarg_name(cp)
    if kw is None:
        raise AnalysisError("create_preprocessor has no **kwargs any more: options are explicit parameters now - remodel")
    if set(cp.all_param_names()) & options:
        for o in sorted(set(cp.all_param_names()) & options):
            chk.violation("E3-fwd", cp.key, "param:%s" % o, "create_preprocessor captures option `%s` as an explicit parameter and so removes it from **%s" % (o, kw), file=PRE, line=cp.lineno)
    reg = [n for n in walk_local(cp.node) if isinstance(n, ast.Call) and _is_registry_call(n)]
    if not reg:
        # cls = get_config(X)[mode]; return cls(decay_group, **kwargs)
        tmp = {x.targets[0].id for x in walk_local(cp.node) if isinstance(x, ast.Assign) and isinstance(x.targets[0], ast.Name) and isinstance(x.value, ast.Subscript) and isinstance(x.value.value, ast.Call)}
        reg = [n for n in walk_local(cp.node) if isinstance(n, ast.Call) and isinstance(n.func, ast.Name) and n.func.id in tmp]
    if len(reg) != 1:
        raise AnalysisError("create_preprocessor: expected one registry dispatch call, found %d" % len(reg))
    call = reg[0]
    if not any(k.arg is None and isinstance(k.value, ast.Name) and k.value.id == kw for k in call.keywords):
        chk.violation("E3-fwd", cp.key, "registry:**%s" % kw, "the registry dispatch `%s` does not hand on **%s" % (norm_text(call)[:80], kw), file=PRE, line=call.lineno)
    for k in call.keywords:
        if k.arg is not None and (k.arg in options or origin_name(cp, k.value) in options):
            if k.arg != origin_name(cp, k.value):
                chk.violation("E3-fwd", cp.key, "registry:%s" % k.arg, "keyword `%s=%s` renames an option" % (k.arg, norm_text(k.value)), file=PRE, line=call.lineno)
    chk.instance("E3-fwd", "create_preprocessor: **%s handed on to the registered class unchanged (names preserved)" % kw)
    # registered classes
    classes = []
    for m in repo.mods.values():
        for c in m.all_classes:
            for d in c.decorators:
                dn = d.func if isinstance(d, ast.Call) else d
                if (dotted(dn) or "").split(".")[-1] == "register_preprocessor":
                    classes.append(c)
                    break
    if len(classes) < 1:
        raise AnalysisError("no class registered with @register_preprocessor found")
    n = 0
    for c in sorted(classes, key=lambda c: (c.mod.rel, c.node.lineno)):
        chain = []
        ok_store = False
        for k in c.mro:
            init = k.methods.get("__init__")
            if init is None:
                continue
            chain.append(init)
            captured = set(init.all_param_names()) & options
            for o in sorted(captured):
                chk.violation(
                    "E3-fwd", init.key, "param:%s" % o,
                    "preprocessor constructor captures option `%s` as an explicit parameter: it never reaches self.kwargs / the literal option list" % o,
                    file=init.mod.rel, line=init.lineno,
                )
            ikw = _kwarg_name(init)
            if ikw is None:
                chk.violation("E3-fwd", init.key, "**kwargs", "preprocessor constructor accepts no **kwargs: options passed by create_preprocessor are rejected", file=init.mod.rel, line=init.lineno)
                break
            stores = [
                s for s in walk_local(init.node)
                if isinstance(s, ast.Assign) and len(s.targets) == 1 and norm_text(s.targets[0]) == "self.kwargs"
            ]
            if stores:
                if all(isinstance(s.value, ast.Name) and s.value.id == ikw for s in stores):
                    ok_store = True
                else:
                    chk.violation("E3-fwd", init.key, "self.kwargs", "self.kwargs is not the constructor's own **%s: %s" % (ikw, norm_text(stores[0])), file=init.mod.rel, line=stores[0].lineno)
                break
            sup = [
                s for s in walk_local(init.node)
                if isinstance(s, ast.Call) and isinstance(s.func, ast.Attribute) and s.func.attr == "__init__"
                and isinstance(s.func.value, ast.Call) and isinstance(s.func.value.func, ast.Name) and s.func.value.func.id == "super"
            ]
            if len(sup) != 1 or not any(k2.arg is None and isinstance(k2.value, ast.Name) and k2.value.id == ikw for k2 in sup[0].keywords):
                chk.violation("E3-fwd", init.key, "super().__init__", "constructor neither stores **%s in self.kwargs nor hands it to super().__init__" % ikw, file=init.mod.rel, line=init.lineno)
                break
        if ok_store:
            n += 1
            chk.instance(
                "E3-fwd",
                "registered preprocessor %s (%s): **kwargs -> %s -> self.kwargs, no option captured by an explicit parameter"
                % (c.name, c.mod.rel, " -> ".join(i.qual for i in chain)),
            )
        elif not any(v["function"] in [i.key for i in chain] for v in chk.violations):
            chk.violation("E3-fwd", c.key, "self.kwargs", "no constructor in the MRO of %s stores **kwargs in self.kwargs" % c.name, file=c.mod.rel, line=c.node.lineno)
    return n


def check_sources(repo, chk):
    """both option dicts are the `data` section of the configuration"""
    f = repo.fn(LOADER + "::ConfigLoader.__init__")
    got = False
    for n in walk_local(f.node):
        if isinstance(n, ast.Call) and isinstance(n.func, ast.Name) and n.func.id == "load_data_mode" and n.args:
            o = origin_name(f, n.args[0])
            chk.instance("E3-src", "ConfigLoader.__init__: data mode receives config section '%s' (`%s`)" % (o, norm_text(n.args[0])))
            got = True
            if o != "data":
                chk.violation("E3-src", f.key, "load_data_mode", "the data mode is built from `%s`, not from the `data` section" % norm_text(n.args[0]), file=LOADER, line=n.lineno)
    if not got:
        raise AnalysisError("ConfigLoader.__init__ no longer calls load_data_mode")
    f = repo.fn(LOADER + "::ConfigLoader.get_amplitude")
    got = False
    for n in walk_local(f.node):
        if isinstance(n, ast.Call) and isinstance(n.func, ast.Name) and n.func.id == "create_amplitude":
            for kw in n.keywords:
                if kw.arg == "all_config":
                    o = origin_name(f, kw.value)
                    chk.instance("E3-src", "ConfigLoader.get_amplitude: all_config receives config section '%s' (`%s`)" % (o, norm_text(kw.value)))
                    got = True
                    if o != "data":
                        chk.violation("E3-src", f.key, "all_config", "all_config is `%s`, not the `data` section" % norm_text(kw.value), file=LOADER, line=n.lineno)
    if not got:
        raise AnalysisError("ConfigLoader.get_amplitude no longer passes all_config= to create_amplitude")


def check_consumers(repo, chk, options, chain_fns):
    """E3-sink: every implemented option is actually read by code on the chain
    (a test position, or an argument of a function that is not a forwarding callee)"""
    chain_set = set(chain_fns)
    consumers = {o: [] for o in options}
    for f in chain_fns:
        own = set(f.all_param_names()) & options
        if not own:
            continue
        forwarded = set()
        for n in walk_local(f.node):
            if isinstance(n, ast.Call):
                for a in list(n.args) + [k.value for k in n.keywords]:
                    if isinstance(a, ast.Name):
                        forwarded.add(id(a))
        tests = set()
        for n in walk_local(f.node):
            t = None
            if isinstance(n, (ast.If, ast.IfExp, ast.While)):
                t = n.test
            elif isinstance(n, ast.Assert):
                t = n.test
            if t is not None:
                for e in ast.walk(t):
                    if isinstance(e, ast.Name) and e.id in own:
                        tests.add(e.id)
            # any other decision taken on the option's value: a comparison, a boolean operation, a subscript index
            # (table dispatch `{True: f, False: g}[opt == "x"]`), a `not`
            if isinstance(n, (ast.Compare, ast.BoolOp)) or (isinstance(n, ast.UnaryOp) and isinstance(n.op, ast.Not)):
                for e in ast.walk(n):
                    if isinstance(e, ast.Name) and e.id in own:
                        tests.add(e.id)
            if isinstance(n, ast.Subscript):
                for e in ast.walk(n.slice):
                    if isinstance(e, ast.Name) and e.id in own:
                        tests.add(e.id)
        for o in sorted(tests):
            consumers[o].append("%s: tested" % f.qual)
    return consumers


def run(repo, chk, tier):
    # the alignment compares frames of different chains: each chain's frames must be the chained rest frames
    from .c11_helicity import check_frame_typing

    check_frame_typing(repo, chk)
    from .c02_align import check_alignment_cover

    check_alignment_cover(repo, chk)
    # per-chain lists meet position by position: each follows the declared chain selection (shared with C03)
    from .c03_order import check_selection_order

    check_selection_order(repo, chk)
    chk.rule(
        "E3-fwd",
        "at every call site of the angle-option chain, an argument that carries option N (caller parameter N, self.N, "
        "<dict>.get('N')/<dict>['N'], or a local assigned only from those) binds the callee parameter N "
        "(positional or keyword, resolved against the callee signature; **kwargs pass-through keeps the keyword name)",
    )
    chk.rule("E3-complete", "an option that both caller and callee have as a parameter is passed on (never left to the callee default or a constant)")
    chk.rule(
        "E3-list",
        "a literal option-name list copied into **kwargs names only option parameters of cal_angle_from_momentum, "
        "contains the frozen configurable set, and the default preprocessor and the p4_directly model use the same names; "
        "every listed option is supplied by SimpleData.__init__ and every option SimpleData.__init__ supplies is listed",
    )
    chk.rule("E3-sink", "every option of cal_angle_from_momentum is read in a test position by some function of the chain (it is implemented, not just passed around)")
    chk.rule("E3-src", "the data mode and the p4_directly amplitude model both take their options from the `data` section")
    chk.assume("option flow through dicts is by string key; the only renaming sites are the call sites and literal lists enumerated here")
    chk.assume("registered preprocessors are the classes decorated with @register_preprocessor in the parsed tree")

    # the alignment rotation between two chains' frames is extracted from an SU(2) product: the extraction must
    # reproduce the matrix including its sign (half-integer spins), whichever chain is the reference
    from .c12_su2 import check_su2

    check_su2(repo, chk, parts=("euler",))
    res = Resolver(repo)
    entry = repo.fn(ENTRY)
    options = set(entry.all_param_names()) - DATA_PARAMS
    for o in sorted(IMPLEMENTED_MIN - options):
        chk.violation("E3-fwd", ENTRY, "param:%s" % o, "cal_angle_from_momentum no longer accepts option `%s`" % o, file=CAL, line=entry.lineno)
    targets = [repo.fn(k) for k in TARGETS]
    # options implemented further down only (final_rest of cal_angle_from_particle)
    all_options = set(options)
    for g in targets:
        if g.key.startswith(CAL) and g is not entry:
            extra_opts = set(g.all_param_names()) - options - DATA_PARAMS - {"data", "decay_group"}
            for o in sorted(extra_opts):
                chk.info("%s has an option `%s` that no caller on the chain can set (default %s)" % (g.qual, o, norm_text(g.defaults()[o]) if o in g.defaults() else "-"))
            all_options |= extra_opts
    chk.info("options derived from the signature of cal_angle_from_momentum: %s" % ", ".join(sorted(options)))

    sites = find_sites(repo, res, targets)
    edge_count = {}
    n_fwd = 0
    for s in sorted(sites, key=lambda s: (s.caller.key, s.call.lineno, s.call.col_offset)):
        edge_count[(s.caller.key, s.callee.key)] = edge_count.get((s.caller.key, s.callee.key), 0) + 1
        s.ordinal = edge_count[(s.caller.key, s.callee.key)]
        n_fwd += check_site(chk, s, all_options)
    for a, b, k in REQUIRED_EDGES:
        repo.fn(a)
        if edge_count.get((a, b), 0) < k:
            raise AnalysisError("chain edge %s -> %s has %d call site(s), %d confirmed by hand" % (a, b, edge_count.get((a, b), 0), k))
    chk.extra["call_sites"] = len(sites)
    chk.extra["edges"] = {"%s -> %s" % k: v for k, v in edge_count.items()}

    n_reg = check_registry(repo, res, chk, options)
    if n_reg < 1:
        raise AnalysisError("no registered preprocessor whose constructor chain could be modelled")

    # literal option lists
    lists = {}
    srcs = {}
    for key in LIST_FORWARDERS:
        out = check_list_forwarder(repo, res, chk, key, entry, options)
        if isinstance(out, tuple):
            lists[key], srcs[key] = out
        else:
            lists[key] = out
    a, b = LIST_FORWARDERS
    if lists[a] != lists[b]:
        chk.violation(
            "E3-list", b, "lists-differ",
            "option lists differ: %s has %s, %s has %s" % (a.split("::")[1], sorted(lists[a]), b.split("::")[1], sorted(lists[b])),
            file=b.split("::")[0], line=repo.fn(b).lineno,
        )
    # source dicts of the two lists
    pre_call = repo.fn(a)
    def _through_alias(fn_, e):
        for _ in range(3):
            if isinstance(e, ast.Name):
                ds = _assignments(fn_, e.id)
                if len(ds) == 1 and ds[0] is not None:
                    e = ds[0]
                    continue
            break
        return e

    if a in srcs and norm_text(_through_alias(pre_call, srcs[a])) != "self.kwargs":
        chk.violation("E3-list", a, "source", "options are copied from `%s`, not from self.kwargs" % norm_text(srcs[a]), file=PRE, line=pre_call.lineno)
    p4 = repo.fn(b)
    if b in srcs:
        o = origin_name(p4, srcs[b])
        if o != "all_config":
            chk.violation("E3-list", b, "source", "options are copied from `%s` (origin %s), not from extra_kwargs['all_config']" % (norm_text(srcs[b]), o), file=AMP, line=p4.lineno)
    # supplied by SimpleData.__init__  <->  listed by the default preprocessor
    init = repo.fn(DATA + "::SimpleData.__init__")
    supplied = {}
    for s in sites:
        if s.caller is init and s.callee.key == PRE + "::create_preprocessor":
            for kw in expand_kwstar(init, s.call).keywords:
                if kw.arg is not None:
                    supplied[kw.arg] = origin_name(init, kw.value)
    sup_opts = {k for k in supplied if k in options}
    for nm in sorted(lists[a] - sup_opts):
        chk.violation("E3-list", init.key, "unsupplied:%s" % nm, "option '%s' is listed by the default preprocessor but never supplied by SimpleData.__init__" % nm, file=DATA, line=init.lineno)
    for nm in sorted(sup_opts - lists[a]):
        chk.violation("E3-list", a, "unlisted:%s" % nm, "SimpleData.__init__ supplies option '%s' but the preprocessor's literal list drops it" % nm, file=PRE, line=pre_call.lineno)
    for nm in sorted(CONFIG_LIST_MIN - sup_opts):
        chk.violation("E3-list", init.key, "unread:%s" % nm, "SimpleData.__init__ no longer forwards configurable option '%s'" % nm, file=DATA, line=init.lineno)

    check_sources(repo, chk)

    # terminal consumers
    chain_fns = [g for g in targets if g.key.startswith(CAL)]
    consumers = check_consumers(repo, chk, options, chain_fns)
    # `batch` is consumed as an argument of split_generator (not a test)
    base = repo.fn(CAL + "::cal_angle_from_momentum_base")
    for n in walk_local(base.node):
        if isinstance(n, ast.Call) and isinstance(n.func, ast.Name) and n.func.id == "split_generator":
            for x in list(n.args[1:]) + [kw.value for kw in n.keywords]:
                if isinstance(x, ast.Name) and x.id in options:
                    consumers[x.id].append("%s: split_generator(.., %s)" % (base.qual, x.id))
    for o in sorted(options):
        if consumers[o]:
            chk.instance("E3-sink", "option `%s` consumed by %s" % (o, "; ".join(consumers[o])))
        else:
            chk.violation("E3-sink", ENTRY, "unused:%s" % o, "option `%s` is accepted by cal_angle_from_momentum but no function of the chain reads it" % o, file=CAL, line=entry.lineno)

    # defaults along the chain: INFO only (all options are forwarded explicitly, so inner defaults are dead)
    for o in sorted(all_options):
        ds = []
        for g in targets:
            d = g.defaults().get(o)
            if d is not None:
                ds.append((g.qual, norm_text(d)))
        for n in walk_local(init.node):
            if isinstance(n, ast.Call) and isinstance(n.func, ast.Attribute) and n.func.attr == "get" and len(n.args) == 2 and const_value(n.args[0]) == o:
                ds.append(("SimpleData.__init__ dic.get", norm_text(n.args[1])))
        if len({d for _, d in ds}) > 1:
            chk.info("defaults of option `%s` differ along the chain (not a violation: the value is forwarded explicitly): %s" % (o, ", ".join("%s=%s" % x for x in ds)))

    # the p4_directly model copies only keys that are present, the data mode always supplies dic.get defaults
    for n in walk_local(init.node):
        if isinstance(n, ast.Call) and isinstance(n.func, ast.Attribute) and n.func.attr == "get" and len(n.args) == 2:
            o = const_value(n.args[0])
            if o in lists[b] and o in entry.defaults() and norm_text(entry.defaults()[o]) != norm_text(n.args[1]):
                chk.info(
                    "option `%s` absent from the data section: SimpleData supplies %s, P4DirectlyAmplitudeModel.cal_angle falls back to "
                    "cal_angle_from_momentum's default %s (equivalence of the two conventions is the numerical part of C02, not decided here)"
                    % (o, norm_text(n.args[1]), norm_text(entry.defaults()[o]))
                )
    chk.extra["options"] = sorted(options)
    chk.extra["literal_lists"] = {k: sorted(v) for k, v in lists.items()}
    chk.require_count("E3-fwd", MIN_FWD)
    chk.require_count("E3-list", MIN_LIST)
    chk.require_count("E3-sink", len(IMPLEMENTED_MIN))
    chk.require_count("E3-src", 2)
    from .c02_ref import check_ref

    check_ref(repo, chk)
