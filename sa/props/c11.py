"""C11 - kinematic transformations are mutually inverse (E6, exact identities).

Clauses decided, as identities of the canonical algebraic forms of the kernels
translated from /repo's AST with a component model of tensors (object arrays of
sympy expressions, numpy broadcasting):
  (a) Dalitz construction (data_trans.dalitz._generate_fun0 + generate_p), as
      identities in (m12, m23, m0, m1, m2, m3):
        E1+E2+E3 = m0,  sum p_i = 0,  E_i^2 - |p_i|^2 = m_i^2,
        (p1+p2)^2 = m12,  (p2+p3)^2 = m23
  (b) boosts: LorentzVector.boost(boost(p, b), -b) = p;  M2 and the Minkowski
      product Dot are invariant under boost; boost_matrix(a) . p = boost(p, a_vec/a_0);
      rest_vector(a, p) = boost(p, -a_vec/a_0); rest_vector(a, a) = (M, 0, 0, 0);
      M2 = T^2 - X^2 - Y^2 - Z^2; neg flips the spatial part
Domain assumption: |b| < 1 and b != 0 (the tf.where(beta^2 > eps, ..., 0) guard takes its
true branch), energies positive.
  (c) one helicity step (c11_helicity.check_helicity_step): EulerAngle.angle_zx_z_getx recovers (phi, theta) from
      a momentum built with them; the helicity frames create_rotate_p_decay records for both daughters are the
      frames the extractor derives (x axes equal, z = unit momentum, right-handed); daughters back to back, on shell
  (d) frame typing (c11_helicity.check_frame_typing): every LorentzVector.rest_vector in cal_chain_boost /
      cal_single_boost takes velocity and boosted momentum from the same frame, the velocity is the decaying
      particle's momentum, the result is stored as that decay's rest-frame momentum
Not decided: the helicity-angle round trip as a whole over topologies (which decays/particles the dictionaries
are keyed by at run time); (c)+(d) are its per-step necessary conditions.
"""
import numpy as np
import sympy as sp

from ..model import AnalysisError
from ..sym import Translator, Unmodelled, default_where_policy, equal

LEVEL = "proof"
DAL = "tf_pwa/data_trans/dalitz.py::"
LV = "tf_pwa/angle.py::LorentzVector."


def where_policy(cond, tr):
    d = default_where_policy(cond, tr)
    if d is not None:
        return d
    if isinstance(cond, (sp.StrictGreaterThan, sp.GreaterThan)) and cond.rhs.is_number and abs(float(cond.rhs)) < 1e-9 and cond.lhs.is_nonnegative:
        tr.assumed.append("%s  (velocity is not exactly zero)" % cond)
        return True
    if isinstance(cond, (sp.StrictLessThan, sp.LessThan)) and cond.lhs.is_number and abs(float(cond.lhs)) < 1e-9 and cond.rhs.is_nonnegative:
        tr.assumed.append("%s  (velocity is not exactly zero)" % cond)
        return True
    # the complementary spellings of the same guard (`beta2 <= eps`, `eps >= beta2`): false on the assumed domain
    if isinstance(cond, (sp.StrictLessThan, sp.LessThan)) and cond.rhs.is_number and abs(float(cond.rhs)) < 1e-9 and cond.lhs.is_nonnegative:
        tr.assumed.append("not (%s)  (velocity is not exactly zero)" % cond)
        return False
    if isinstance(cond, (sp.StrictGreaterThan, sp.GreaterThan)) and cond.lhs.is_number and abs(float(cond.lhs)) < 1e-9 and cond.rhs.is_nonnegative:
        tr.assumed.append("not (%s)  (velocity is not exactly zero)" % cond)
        return False
    return None


def M2(p):
    return p[0] ** 2 - p[1] ** 2 - p[2] ** 2 - p[3] ** 2


def check_cross_unit_scale(repo, chk):
    """the parallel-vector fallback of Vector3.cross_unit must only trigger for (numerically) parallel vectors: its
    guard compares the NORM of the cross product with the tolerance, so small momenta (keV-scale systems in GeV) keep
    their true normal"""
    chk.rule("E6-scale", "Vector3.cross_unit evaluated on exact rational vectors of length 1e-5 at right angles (|a x b| = 1e-10, far above the 1e-14 tolerance): the result is the true unit normal, not the fallback direction; for exactly parallel vectors the fallback is used")
    fn = repo.fn("tf_pwa/angle.py::Vector3.cross_unit")
    R = sp.Rational
    eps = R(1, 100000)
    tr = Translator(repo, where_policy=lambda cond, t: None, hooks={"stack_as_array": True}, max_depth=3)
    cases = [
        (np.array([eps, 0, 0], dtype=object), np.array([0, eps, 0], dtype=object), [0, 0, 1], "perpendicular, length 1e-5"),
        (np.array([0, eps * 3, 0], dtype=object), np.array([eps * 4, 0, 0], dtype=object), [0, 0, -1], "perpendicular, lengths 3e-5 / 4e-5"),
        (np.array([R(1), R(2), R(2)], dtype=object), np.array([R(2), R(-2), R(1)], dtype=object), [R(2, 3), R(1, 3), R(-2, 3)], "perpendicular, length 3"),
    ]
    for a, b, want, label in cases:
        try:
            out = tr.call_fn(fn, [b], {}, self_obj=a) if False else tr.call_fn(fn, [a, b])
        except Unmodelled as e:
            raise AnalysisError("Vector3.cross_unit cannot be evaluated on rational vectors: %s" % e)
        got = [sp.nsimplify(sp.simplify(x)) for x in np.asarray(out, dtype=object).reshape(-1)]
        ok = len(got) == 3 and all(sp.simplify(g - sp.sympify(w)) == 0 for g, w in zip(got, want))
        chk.oblige("E6-scale", "cross_unit (%s) == %s" % (label, want), ok)
        if not ok:
            chk.violation("E6-scale", fn.key, "normal:" + label.split(",")[0] + label[-6:], "cross_unit of two %s vectors gives %s instead of the unit normal %s: the parallel-vector fallback is taken although the vectors are not parallel (the guard does not compare the norm of the cross product with the tolerance) - helicity angles of low-momentum systems come out wrong" % (label, got, want), file="tf_pwa/angle.py", line=fn.lineno)


def check_mass_table(repo, chk):
    """HelicityAngle.get_all_mass: a replaced mass holds for that call only (round-3 seed)"""
    from ..sym import PyFunc, SelfObj
    HA = "tf_pwa/data_trans/helicity_angle.py"
    chk.rule("H-mass", "HelicityAngle.get_all_mass, interpreted three times on one object (replace R2, then R1, then nothing) for the chain A -> R1 E, R1 -> R2 D, R2 -> B C: every call gives the replacement for the named particle and the nominal mass of every other one (no mass survives from an earlier call)")
    ha = repo.cls(HA + "::HelicityAngle")
    fn = ha.methods.get("get_all_mass")
    if fn is None:
        raise AnalysisError("anchor vanished: HelicityAngle.get_all_mass")
    names = ["A", "R1", "R2", "B", "C", "D", "E"]
    nominal = {n: sp.Symbol("m_" + n, positive=True) for n in names}
    parts = {n: SelfObj(None, {"__str__": n, "get_mass": PyFunc(lambda n_=n: nominal[n_])}) for n in names}
    dec = lambda c, o: SelfObj(None, {"core": parts[c], "outs": [parts[x] for x in o]})
    chain = [dec("A", ["R1", "E"]), dec("R1", ["R2", "D"]), dec("R2", ["B", "C"])]
    so = SelfObj(ha, {"decay_chain": chain})
    tr = Translator(repo, hooks={"allow_attr_store": True}, max_depth=2)
    try:
        tr.call_fn(ha.methods["__init__"], [chain], {}, self_obj=so)
        runs = []
        for rep in ({"R2": sp.Symbol("x2")}, {"R1": sp.Symbol("x1")}, {}):
            r_ = tr.call_fn(fn, [dict(rep)], {}, self_obj=so)
            runs.append((rep, dict(r_) if isinstance(r_, dict) else r_))  # a copy: the verdict is about this call
    except Unmodelled as e:
        raise AnalysisError("HelicityAngle.get_all_mass cannot be interpreted: %s" % e)
    bad = None
    for k, (rep, got) in enumerate(runs):
        want = {n: rep.get(n, nominal[n]) for n in names}
        g = {n: got.get(parts[n]) for n in names} if isinstance(got, dict) else None
        if g != want and bad is None:
            bad = "call %d with replace_mass=%s gives %s, expected %s" % (k + 1, {a: str(b) for a, b in rep.items()}, {a: str(b) for a, b in (g or {}).items() if b != want.get(a)}, {a: str(b) for a, b in want.items() if (g or {}).get(a) != b})
    chk.oblige("H-mass", "three successive get_all_mass calls on one HelicityAngle: replacement for the named particle, nominal masses otherwise", bad is None)
    if bad:
        chk.violation("H-mass", fn.key, "stale", bad + " - momenta generated for a scan of one resonance keep the scanned mass of another", file=HA, line=fn.lineno)


def run(repo, chk, tier, parts=("dalitz", "boost", "helicity", "frame")):
    if len(parts) == 4:
        from ..cacheown import check_persistent_state

        check_persistent_state(repo, chk, ["tf_pwa/data_trans/", "tf_pwa/cal_angle.py", "tf_pwa/angle.py"])
    chk.rule("E6-dalitz", "momenta built from Dalitz variables reproduce them: energy-momentum conservation, mass shells, (p1+p2)^2=m12, (p2+p3)^2=m23")
    chk.rule("E6-boost", "boost round trip, invariance of M2 / Dot, boost matrix == vector boost, rest_vector == boost by -p/E")
    chk.assume("tensor component model: a four-vector is an object array of 4 sympy expressions; tf.stack/concat/expand_dims/reduce_sum/eye follow numpy broadcasting semantics")
    chk.assume("domain: masses and energies positive, 0 < |beta| < 1; tf.where(beta2 > 1e-14, x, 0) takes the true branch")
    chk.trusted_base[:] = ["AST->sympy translator sa/sym.py (tensor ops mapped to numpy object arrays)", "sympy ring normaliser"]
    tr = Translator(repo, where_policy=where_policy, hooks={"stack_as_array": True})

    DOMAIN = {"c": (sp.Rational(-9, 10), sp.Rational(9, 10))} # cos(theta) of the helicity-step clause

    def oblige(rule, text, a, b, where, construct):
        ok, detail = equal(sp.sympify(a), sp.sympify(b), symbols_domain=DOMAIN)
        if ok is None:
            raise AnalysisError("E6 normaliser too weak for %s: %s" % (text, detail))
        chk.oblige(rule, text, ok)
        if not ok:
            f = repo.fn_opt(where)
            chk.violation(rule, where, construct, "%s does not hold: %s" % (text, detail), file=where.split("::")[0], line=f.lineno if f else None)

    def call(key, args):
        try:
            return tr.call_fn(repo.fn(key), args)
        except Unmodelled as e:
            raise AnalysisError("%s is not a single-path kernel any more: %s" % (key, e))

    if "dalitz" in parts:
        # ---- (a) Dalitz
        m12, m23, m0, m1, m2, m3 = sp.symbols("m12 m23 m0 m1 m2 m3", positive=True)
        res = call(DAL + "generate_p", [m12, m23, m0, m1, m2, m3])
        if not (isinstance(res, tuple) and len(res) == 3 and all(isinstance(p, np.ndarray) and p.shape == (4,) for p in res)):
            raise AnalysisError("generate_p no longer returns three four-vectors")
        p1, p2, p3 = res
        W = DAL + "generate_p"
        oblige("E6-dalitz", "E1+E2+E3 == m0", p1[0] + p2[0] + p3[0], m0, W, "energy")
        for k, nm in ((1, "x"), (2, "y"), (3, "z")):
            oblige("E6-dalitz", "sum p_%s == 0" % nm, p1[k] + p2[k] + p3[k], 0, W, "momentum-%s" % nm)
        for p, mm, nm in ((p1, m1, "1"), (p2, m2, "2"), (p3, m3, "3")):
            oblige("E6-dalitz", "E%s^2 - |p%s|^2 == m%s^2" % (nm, nm, nm), M2(p), mm ** 2, W, "shell-%s" % nm)
        oblige("E6-dalitz", "(p1+p2)^2 == m12", M2(p1 + p2), m12, W, "m12")
        oblige("E6-dalitz", "(p2+p3)^2 == m23", M2(p2 + p3), m23, W, "m23")
        oblige("E6-dalitz", "(p1+p3)^2 == m0^2+m1^2+m2^2+m3^2-m12-m23", M2(p1 + p3), m0 ** 2 + m1 ** 2 + m2 ** 2 + m3 ** 2 - m12 - m23, W, "m13")
        # the class wrapper passes its masses in the declared order: Dalitz(m0, m1, m2, m3).generate_p(m12, m23)
        # interpreted with the kernel replaced by a recorder of its bound arguments
        from ..sym import SelfObj
        dcls = repo.cls("tf_pwa/data_trans/dalitz.py::Dalitz")
        d = dcls.methods["generate_p"]
        kern = repo.fn(DAL + "generate_p")
        seen = []

        def rec(tr_, a_, k_, n_):
            names = kern.all_param_names()
            bound = dict(zip(names, a_))
            bound.update(k_)
            seen.append([bound.get(x) for x in names])
            return "momenta"

        tr_w = Translator(repo, hooks={kern.key: rec, "allow_attr_store": True}, max_depth=2)
        so = SelfObj(dcls, {})
        try:
            tr_w.call_fn(dcls.methods["__init__"], [m0, m1, m2, m3], self_obj=so)
            out = tr_w.call_fn(d, [m12, m23], self_obj=so)
        except Unmodelled as e:
            raise AnalysisError("Dalitz.__init__ / generate_p cannot be interpreted: %s" % e)
        ok = out == "momenta" and seen == [[m12, m23, m0, m1, m2, m3]]
        chk.oblige("E6-dalitz", "Dalitz(m0, m1, m2, m3).generate_p(m12, m23) calls the kernel with (m12, m23, m0, m1, m2, m3)", ok)
        if not ok:
            chk.violation("E6-dalitz", d.key, "forward", "Dalitz(m0, m1, m2, m3).generate_p(m12, m23) reaches the kernel with %s instead of (m12, m23, m0, m1, m2, m3)" % (seen,), file="tf_pwa/data_trans/dalitz.py", line=d.lineno)

    if "boost" in parts:
        # ---- (b) boosts
        E, px, py, pz = sp.symbols("E px py pz", real=True)
        F, qx, qy, qz = sp.symbols("F qx qy qz", real=True)
        bx, by, bz = sp.symbols("bx by bz", real=True)
        p = np.array([E, px, py, pz], dtype=object)
        q = np.array([F, qx, qy, qz], dtype=object)
        b = np.array([bx, by, bz], dtype=object)
        B = LV + "boost"
        pb = call(B, [p, b])
        if not (isinstance(pb, np.ndarray) and pb.shape == (4,)):
            raise AnalysisError("LorentzVector.boost does not return a four-vector")
        oblige("E6-boost", "M2(boost(p, b)) == M2(p)", M2(pb), M2(p), B, "mass")
        back = call(B, [pb, -b])
        for k, nm in enumerate("TXYZ"):
            oblige("E6-boost", "boost(boost(p, b), -b)[%s] == p[%s]" % (nm, nm), back[k], p[k], B, "roundtrip-%s" % nm)
        qb = call(B, [q, b])
        dot0 = call(LV + "Dot", [p, q])
        oblige("E6-boost", "Dot(p, q) == T T' - X X' - Y Y' - Z Z'", dot0, E * F - px * qx - py * qy - pz * qz, LV + "Dot", "metric")
        oblige("E6-boost", "Dot(boost(p,b), boost(q,b)) == Dot(p, q)", call(LV + "Dot", [pb, qb]), dot0, B, "dot-invariance")
        oblige("E6-boost", "M2(p) == T^2 - X^2 - Y^2 - Z^2", call(LV + "M2", [p]), M2(p), LV + "M2", "m2")
        ng = call(LV + "neg", [p])
        for k, nm in enumerate("TXYZ"):
            oblige("E6-boost", "neg(p)[%s]" % nm, ng[k], p[k] if k == 0 else -p[k], LV + "neg", "neg-%s" % nm)
        Ea = sp.Symbol("Ea", positive=True)
        ax, ay, az = sp.symbols("ax ay az", real=True)
        a = np.array([Ea, ax, ay, az], dtype=object)
        beta = np.array([ax / Ea, ay / Ea, az / Ea], dtype=object)
        bv = call(LV + "boost_vector", [a])
        for k in range(3):
            oblige("E6-boost", "boost_vector(a)[%d] == a_%s / a_T" % (k, "XYZ"[k]), bv[k], beta[k], LV + "boost_vector", "beta-%d" % k)
        Mx = call(LV + "boost_matrix", [a])
        if not (isinstance(Mx, np.ndarray) and Mx.shape == (4, 4)):
            raise AnalysisError("boost_matrix does not return a 4x4 matrix in the component model")
        fwd = call(B, [p, beta])
        Mp = np.dot(Mx, p)
        for k, nm in enumerate("TXYZ"):
            oblige("E6-boost", "(boost_matrix(a) . p)[%s] == boost(p, a_vec/a_T)[%s]" % (nm, nm), Mp[k], fwd[k], LV + "boost_matrix", "matrix-%s" % nm)
        for i in range(4):
            for j in range(i + 1, 4):
                oblige("E6-boost", "boost_matrix symmetric [%d,%d]" % (i, j), Mx[i, j], Mx[j, i], LV + "boost_matrix", "symmetric-%d%d" % (i, j))
        # a particle at rest (zero velocity: the parent in its own frame, a daughter produced at threshold): the boost
        # matrix is the identity - finite, no 0/0 from normalising the velocity
        a0 = np.array([Ea, sp.Integer(0), sp.Integer(0), sp.Integer(0)], dtype=object)
        M0 = call(LV + "boost_matrix", [a0])
        if not (isinstance(M0, np.ndarray) and M0.shape == (4, 4)):
            raise AnalysisError("boost_matrix(at rest) does not return a 4x4 matrix in the component model")
        for i in range(4):
            for j in range(4):
                try:
                    v_ = sp.simplify(sp.sympify(M0[i, j]))
                except (TypeError, ValueError):
                    v_ = sp.nan
                ok_ = (not v_.has(sp.nan, sp.zoo, sp.oo)) and v_ == (1 if i == j else 0)
                chk.oblige("E6-boost", "boost_matrix(at rest)[%d,%d] == %d" % (i, j, 1 if i == j else 0), ok_)
                if not ok_:
                    chk.violation("E6-boost", LV + "boost_matrix", "rest-%d%d" % (i, j), "boost_matrix of a four-vector at rest has the entry [%d,%d] = %s, expected %d: the matrix no longer agrees with the vector boost (the identity) for zero velocity - 0/0 from normalising the velocity" % (i, j, v_, 1 if i == j else 0), file="tf_pwa/angle.py", line=repo.fn(LV + "boost_matrix").lineno)
        rv = call(LV + "rest_vector", [a, p])
        bwd = call(B, [p, -beta])
        for k, nm in enumerate("TXYZ"):
            oblige("E6-boost", "rest_vector(a, p)[%s] == boost(p, -a_vec/a_T)[%s]" % (nm, nm), rv[k], bwd[k], LV + "rest_vector", "rest-%s" % nm)
        rs = call(LV + "rest_vector", [a, a])
        for k in (1, 2, 3):
            oblige("E6-boost", "rest_vector(a, a)[%s] == 0" % "TXYZ"[k], rs[k], 0, LV + "rest_vector", "self-%d" % k)
        oblige("E6-boost", "rest_vector(a, a)[T]^2 == M2(a)", rs[0] ** 2, M2(a), LV + "rest_vector", "self-mass")
    from .c11_helicity import check_frame_typing, check_helicity_step

    if "helicity" in parts:
        check_helicity_step(repo, chk, oblige)
    if "frame" in parts:
        check_frame_typing(repo, chk)
    if len(parts) == 4:
        check_mass_table(repo, chk)
        from ..cacheown import check_iteration_order_agreement

        # build_data consumes the angles position by position, find_variable produces them: same traversal of the chain
        check_iteration_order_agreement(repo, chk, ["tf_pwa/data_trans/helicity_angle.py"])
        from .c11_findvar import check_find_variable

        check_find_variable(repo, chk)
    if "helicity" in parts:
        check_cross_unit_scale(repo, chk)
    chk.extra["kernels_inlined"] = sorted(tr.inlined)
    chk.extra["domain_assumptions_used"] = sorted(set(tr.assumed))[:10]
    chk.info("not decided as a whole: helicity-angle round trip over decay topologies (cal_helicity_angle / HelicityAngle.build_data): data-dependent frame bookkeeping")
    if len(parts) == 4 and chk.obligations < 44:
        raise AnalysisError("only %d C11 obligations generated" % chk.obligations)
