"""C07 - returned gradients / Hessians are the derivatives of the returned NLL.

Structural clauses decided:
  (a) constraint completeness: in FCN and CombineFCN an entry point that returns
      k-th order information adds the Gaussian-constraint contribution of every
      order <= k (value <- get_constrain_term, gradient <- get_constrain_grad,
      Hessian <- get_constrain_hessian, Hessian-vector <- get_constrain_hessian . p)
  (b) bound-transform chain rule: trans_fcn_grad / trans_grad_hessp /
      trans_f_grad_hess / trans_error_matrix / set_trans_var build y, dy/dx, d2y/dx2
      with the same loop over trainable_vars, the same bnd_dic lookup and identity
      defaults (x, 1, 0), and combine them as  g dy ;  H dy (p dy) + g d2y p ;
      dy H dy + diag(g d2y) ; dy V dy   (E6 canonical forms);
      Bound.get_func returns (f, f', f'', inverse) and each accessor reads its slot.
Not decided: that autodiff and the hand-derived cfit formulas are numerically right.
"""
import ast

import sympy as sp

from ..model import AnalysisError, norm_text, walk_local, walk_stmt
from ..sym import PyFunc, Translator, Unmodelled, equal

MODEL = "tf_pwa/model/model.py"
VAR = "tf_pwa/variable.py"
CONSTR = {"term": "get_constrain_term", "grad": "get_constrain_grad", "hessian": "get_constrain_hessian"}
# entry point -> per returned component, the constraint quantities that must be added to it
REQ = {
    "__call__": [("term",)],
    "grad": [("grad",)],
    "nll_grad": [("term",), ("grad",)],
    "nll_grad_hessian": [("term",), ("grad",), ("hessian",)],
    "grad_hessp": [("grad",), ("hessian", "@p")],
}


def single_defs(fnode):
    """names (and self.attrs) assigned exactly once by a plain assignment -> value expr"""
    cnt, val = {}, {}
    for n in walk_local(fnode):
        if isinstance(n, ast.Assign) and len(n.targets) == 1:
            t = n.targets[0]
            key = None
            if isinstance(t, ast.Name):
                key = t.id
            elif isinstance(t, ast.Attribute) and isinstance(t.value, ast.Name) and t.value.id == "self":
                key = "self." + t.attr
            elif isinstance(t, ast.Tuple):
                for i, e in enumerate(t.elts):
                    if isinstance(e, ast.Name):
                        cnt[e.id] = cnt.get(e.id, 0) + 1
                        val[e.id] = ast.Subscript(value=n.value, slice=ast.Constant(value=i), ctx=ast.Load())
                continue
            if key:
                cnt[key] = cnt.get(key, 0) + 1
                val[key] = n.value
        elif isinstance(n, (ast.AugAssign,)) and isinstance(n.target, ast.Name):
            cnt[n.target.id] = cnt.get(n.target.id, 0) + 2
        elif isinstance(n, (ast.For, ast.comprehension)):
            for x in ast.walk(n.target):
                if isinstance(x, ast.Name):
                    cnt[x.id] = cnt.get(x.id, 0) + 2
    return {k: v for k, v in val.items() if cnt.get(k) == 1}


def expand(expr, defs, depth=0):
    if depth > 8:
        return expr

    class T(ast.NodeTransformer):
        def visit_Name(self, n):
            if isinstance(n.ctx, ast.Load) and n.id in defs:
                return expand(defs[n.id], defs, depth + 1)
            return n

        def visit_Attribute(self, n):
            if isinstance(n.ctx, ast.Load) and isinstance(n.value, ast.Name) and n.value.id == "self" and ("self." + n.attr) in defs:
                return expand(defs["self." + n.attr], defs, depth + 1)
            return self.generic_visit(n)

    import copy

    return T().visit(copy.deepcopy(expr))


def add_terms(e):
    """flatten a sum (through float(...) / np.array(...) wrappers)"""
    if isinstance(e, ast.BinOp) and isinstance(e.op, ast.Add):
        return add_terms(e.left) + add_terms(e.right)
    if isinstance(e, ast.Call) and len(e.args) == 1 and not e.keywords:
        fn = e.func
        nm = fn.id if isinstance(fn, ast.Name) else (fn.attr if isinstance(fn, ast.Attribute) else None)
        if nm in ("float", "array", "asarray", "convert_to_tensor"):
            return add_terms(e.args[0])
    return [e]


def calls_constraint(term, which):
    for x in ast.walk(term):
        if isinstance(x, ast.Call) and isinstance(x.func, ast.Attribute) and x.func.attr == CONSTR[which]:
            return True
    return False


def entry_points_by_interpretation(repo):
    """every public entry point of FCN / CombineFCN interpreted on a two-parameter component model: the likelihood-level
    methods get_* return symbols, the GaussianConstr methods return symbols; the entry point must return, component
    by component, likelihood part + constraint part (value, gradient, Hessian, Hessian.p).  Robust to temporaries,
    accumulation into the same name, keyword arguments ...   -> {(class, method): (ok, [got], [want])}"""
    import numpy as np
    import sympy as sp

    from ..sym import SelfObj, Translator, Unmodelled, equal

    M = MODEL + "::"
    gc = repo.cls(M + "GaussianConstr")
    N, Ct = sp.symbols("N Ct")
    G = np.array(sp.symbols("G1 G2"), dtype=object)
    Cg = np.array(sp.symbols("Cg1 Cg2"), dtype=object)
    H = np.array(sp.symbols("H11 H12 H21 H22"), dtype=object).reshape(2, 2)
    Ch = np.array(sp.symbols("Ch11 Ch12 Ch21 Ch22"), dtype=object).reshape(2, 2)
    HP = np.array(sp.symbols("HP1 HP2"), dtype=object)
    P = np.array(sp.symbols("p1 p2"), dtype=object)
    out = {}
    for cname in ("FCN", "CombineFCN"):
        cls = repo.cls(M + cname)
        hooks = {"allow_attr_store": True, "stack_as_array": True,
                 gc.methods["get_constrain_term"].key: lambda tr, a, k, n: Ct,
                 gc.methods["get_constrain_grad"].key: lambda tr, a, k, n: Cg,
                 gc.methods["get_constrain_hessian"].key: lambda tr, a, k, n: Ch}
        lik = {"get_nll": N, "get_grad": G, "get_nll_grad": (N, G), "get_nll_grad_hessian": (N, G, H), "get_grad_hessp": (G, HP)}
        for mn, val in lik.items():
            if mn not in cls.methods:
                raise AnalysisError("anchor vanished: %s.%s" % (cname, mn))
            hooks[cls.methods[mn].key] = (lambda v: (lambda tr, a, k, n: v))(val)
        want = {"__call__": [N + Ct], "grad": [G + Cg], "nll_grad": [N + Ct, G + Cg], "nll_grad_hessian": [N + Ct, G + Cg, H + Ch], "grad_hessp": [G + Cg, HP + np.dot(Ch, P)]}
        for mname in REQ:
            fn = cls.methods.get(mname)
            if fn is None:
                raise AnalysisError("anchor vanished: %s.%s" % (cname, mname))
            tr = Translator(repo, hooks=hooks, max_depth=3)
            so = SelfObj(cls, {"gauss_constr": SelfObj(gc, {"constraint": {"theta_c": (sp.Symbol("mu_c", real=True), sp.Symbol("sigma_c", positive=True))}}), "batch": sp.Symbol("batch"), "fcns": []})
            args = [sp.Symbol("x")] + ([P] if mname == "grad_hessp" else [])
            try:
                got = tr.call_fn(fn, args, self_obj=so)
            except Unmodelled as e:
                raise AnalysisError("%s.%s is not interpretable on the component model: %s" % (cname, mname, e))
            comps = list(got) if isinstance(got, (tuple, list)) else [got]
            ws = want[mname]
            oks = []
            for i, w in enumerate(ws):
                if i >= len(comps):
                    oks.append(False)
                    continue
                a, b = np.asarray(comps[i], dtype=object), np.asarray(w, dtype=object)
                oks.append(a.shape == b.shape and all(equal(sp.sympify(x), sp.sympify(y))[0] is True for x, y in zip(a.reshape(-1), b.reshape(-1))))
            out[(cname, mname)] = (len(comps) == len(ws), oks, comps, ws, fn)
    return out


def clause_a(repo, chk):
    chk.rule("A-constr", "each FCN/CombineFCN entry point, interpreted on a two-parameter component model, returns likelihood part + Gaussian-constraint part for every order it returns (value, gradient, Hessian, Hessian.p)")
    res = entry_points_by_interpretation(repo)
    names = {0: {"__call__": "term", "grad": "grad", "nll_grad": "term", "nll_grad_hessian": "term", "grad_hessp": "grad"}}
    kinds = {"__call__": ["term"], "grad": ["grad"], "nll_grad": ["term", "grad"], "nll_grad_hessian": ["term", "grad", "hessian"], "grad_hessp": ["grad", "hessian"]}
    for (cname, mname), (arity_ok, oks, comps, ws, fn) in sorted(res.items()):
        if not arity_ok:
            chk.violation("A-constr", fn.key, "arity", "returns %d components, %d expected" % (len(comps), len(ws)), file=MODEL, line=fn.lineno)
        for i, ok in enumerate(oks):
            which = kinds[mname][i]
            chk.instance("A-constr", "%s.%s component %d == likelihood part + %s%s: %s" % (cname, mname, i, CONSTR[which], " . p" if (mname == "grad_hessp" and i == 1) else "", "present" if ok else "MISSING"))
            if not ok:
                chk.violation(
                    "A-constr", fn.key, "component%d:%s" % (i, which),
                    "returned component %d is `%s`, expected `%s`: with a Gaussian constraint configured the returned %s is not the derivative of the returned NLL"
                    % (i, comps[i] if i < len(comps) else None, ws[i], {"term": "value", "grad": "gradient", "hessian": "Hessian (-vector product)"}[which]),
                    file=MODEL, line=fn.lineno,
                )
    chk.require_count("A-constr", 18)


# --------------------------------------------------------------------------- (b)
TRANS = {
    "VarsManager.trans_fcn_grad": ("fcn_t", ["get_x2y", "get_dydx"]),
    "VarsManager.trans_grad_hessp": ("f_wrap", ["get_x2y", "get_dydx", "get_d2ydx2"]),
    "VarsManager.trans_f_grad_hess": ("f_wrap", ["get_x2y", "get_dydx", "get_d2ydx2"]),
    "VarsManager.trans_error_matrix": (None, ["get_dydx"]),
    "VarsManager.set_trans_var": (None, ["get_x2y"]),
}
DEFAULTS = {"get_dydx": 1, "get_d2ydx2": 0}


def loop_facts(fn_node):
    """the `for ... in self.trainable_vars` loop with `if name in self.bnd_dic` -> facts"""
    for n in walk_stmt(fn_node):
        if isinstance(n, ast.For) and "trainable_vars" in norm_text(n.iter):
            for st in n.body:
                if isinstance(st, ast.If) and "bnd_dic" in norm_text(st.test):
                    return n, st
    return None, None


def clause_b(repo, chk):
    chk.rule("B-loop", "each bound-transform helper loops over trainable_vars, looks the bound up in bnd_dic, feeds x[i] to get_x2y/get_dydx/get_d2ydx2 and uses the identity defaults (x, 1, 0) for unbounded parameters")
    chk.rule("B-chain", "E6: grad = g*dy ; hessp = H(p*dy)*dy + g*d2y*p ; hess = dy*H*dy + diag(g*d2y) ; V_y = dy*V*dy")
    chk.rule("B-slots", "Bound.get_func returns (f, df/dx, d2f/dx2, inverse) and get_x2y/get_dydx/get_d2ydx2/get_y2x read f/df/df2/inv")
    m = repo.mod(VAR)
    for qual, (inner, methods) in TRANS.items():
        outer = repo.fn("%s::%s" % (VAR, qual))
        fn = outer
        if inner is not None:
            fn = repo.fn("%s::%s.%s" % (VAR, qual, inner))
        loop, iff = loop_facts(fn.node)
        if loop is None:
            raise AnalysisError("%s: loop over trainable_vars with bnd_dic lookup not found" % fn.key)
        # polarity of the test: `name in self.bnd_dic` (bounded branch first) or `name not in ...` (defaults first)
        t_ = iff.test
        negated = (isinstance(t_, ast.Compare) and isinstance(t_.ops[0], ast.NotIn)) or (isinstance(t_, ast.UnaryOp) and isinstance(t_.op, ast.Not))
        bounded_body, default_body = (iff.orelse, iff.body) if negated else (iff.body, iff.orelse)
        # which get_* is called in the bounded branch, with which argument, stored where
        got = {}
        for st in bounded_body:
            for x in ast.walk(st):
                if isinstance(x, ast.Call) and isinstance(x.func, ast.Attribute) and x.func.attr.startswith("get_"):
                    arg = norm_text(x.args[0]) if x.args else None
                    got[x.func.attr] = (arg, norm_text(st))
        idx_ok = True
        for meth in methods:
            if meth not in got:
                chk.violation("B-loop", fn.key, meth, "bounded branch no longer calls %s" % meth, file=VAR, line=iff.lineno)
                idx_ok = False
        args = {a for a, _ in got.values()}
        same_arg = len(args) == 1
        # the store of y uses the same index as the x it reads
        y_ok = True
        for st in bounded_body:
            if isinstance(st, ast.Assign) and isinstance(st.targets[0], ast.Subscript) and "get_x2y" in norm_text(st.value):
                tgt_idx = norm_text(st.targets[0].slice)
                call = [x for x in ast.walk(st.value) if isinstance(x, ast.Call) and isinstance(x.func, ast.Attribute) and x.func.attr == "get_x2y"][0]
                a = call.args[0]
                if not (isinstance(a, ast.Subscript) and norm_text(a.slice) == tgt_idx):
                    y_ok = False
        # defaults in the else branch
        dflt = {}
        for st in default_body:
            if isinstance(st, ast.Expr) and isinstance(st.value, ast.Call) and isinstance(st.value.func, ast.Attribute) and st.value.func.attr == "append":
                lst = norm_text(st.value.func.value)
                dflt[lst] = st.value.args[0]
        lists = {}
        for st in bounded_body:
            if isinstance(st, ast.Expr) and isinstance(st.value, ast.Call) and isinstance(st.value.func, ast.Attribute) and st.value.func.attr == "append":
                lst = norm_text(st.value.func.value)
                inner_call = [x for x in ast.walk(st.value.args[0]) if isinstance(x, ast.Call) and isinstance(x.func, ast.Attribute) and x.func.attr in DEFAULTS]
                if inner_call:
                    lists[lst] = inner_call[0].func.attr
        d_ok = True
        for lst, meth in lists.items():
            dv = dflt.get(lst)
            v = dv.value if isinstance(dv, ast.Constant) else None
            if v is None or float(v) != float(DEFAULTS[meth]):
                d_ok = False
                chk.violation("B-loop", fn.key, "default:%s" % meth, "list `%s` receives %s for bounded parameters but %s (expected %s) for unbounded ones" % (lst, meth, norm_text(dv) if dv is not None else "nothing", DEFAULTS[meth]), file=VAR, line=iff.lineno)
        chk.instance("B-loop", "%s: calls=%s same-arg=%s y-index=%s defaults=%s" % (fn.key, sorted(got), same_arg, y_ok, {k: norm_text(v) for k, v in dflt.items()}))
        # the four wrappers are decided as a whole by B-wrap (interpretation: where the slopes are evaluated, what the
        # inner function is called with); for them the spelling of the loop is reported, not judged
        by_wrap = qual.split(".")[-1] in ("trans_fcn_grad", "trans_grad_hessp", "trans_f_grad_hess", "trans_error_matrix")
        if not same_arg and idx_ok:
            if by_wrap:
                chk.info("B-loop: %s: get_* spelt with different argument expressions %s (decided by B-wrap)" % (fn.key, sorted(map(str, args))))
            else:
                chk.violation("B-loop", fn.key, "argument", "get_* are evaluated at different arguments: %s" % sorted(map(str, args)), file=VAR, line=iff.lineno)
        if not y_ok:
            if by_wrap:
                chk.info("B-loop: %s: y[i] not spelt as a function of x[i] (decided by B-wrap)" % fn.key)
            else:
                chk.violation("B-loop", fn.key, "y-index", "y[i] is not computed from x[i] of the same index", file=VAR, line=iff.lineno)
    chk.require_count("B-loop", 5)

    # ---- chain-rule formulas (statements after the loop, evaluated on a 2-parameter component model)
    chain_formulas(repo, chk)

    # ---- Bound slots
    gf = repo.fn("%s::Bound.get_func" % VAR)
    ret = [n for n in walk_local(gf.node) if isinstance(n, ast.Return)][0]
    defs = single_defs(gf.node)
    order = [norm_text(e) for e in ret.value.elts] if isinstance(ret.value, ast.Tuple) else []
    # role of each returned name by how it is computed
    roles = []
    for e in (ret.value.elts if isinstance(ret.value, ast.Tuple) else []):
        txt = norm_text(defs.get(e.id, e)) if isinstance(e, ast.Name) else norm_text(e)
        # names assigned more than once (f, inv) fall back to their first definition
        roles.append(txt)
    init = repo.fn("%s::Bound.__init__" % VAR)
    slots = None
    for n in walk_local(init.node):
        if isinstance(n, ast.Assign) and isinstance(n.value, ast.Call) and norm_text(n.value.func) == "self.get_func" and isinstance(n.targets[0], ast.Tuple):
            slots = [x.attr for x in n.targets[0].elts]
    if slots is None or len(order) != 4:
        raise AnalysisError("Bound.get_func / Bound.__init__ shape changed")
    # derivative chain: the 2nd returned value is diff(<1st>, x), the 3rd diff(<2nd>, x), the 4th from solve(f - y, x)
    dmap = {}
    for n in walk_local(gf.node):
        if isinstance(n, ast.Assign) and isinstance(n.targets[0], ast.Name) and isinstance(n.value, ast.Call):
            fnm = norm_text(n.value.func).split(".")[-1]
            # an argument bound once to a plain expression (residual = f - y) stands for that expression
            args_ = [norm_text(defs[a.id]) if isinstance(a, ast.Name) and a.id in defs and isinstance(defs[a.id], (ast.BinOp, ast.UnaryOp)) else norm_text(a) for a in n.value.args]
            # method style <expr>.diff(x) is function style diff(<expr>, x)
            if isinstance(n.value.func, ast.Attribute) and fnm in ("diff",) and not (isinstance(n.value.func.value, ast.Name) and n.value.func.value.id in gf.mod.imports):
                args_ = [norm_text(n.value.func.value)] + args_
            dmap.setdefault(n.targets[0].id, []).append((fnm, args_))
    def made_by(name, fnm, arg0):
        return any(k == fnm and a and a[0] == arg0 for k, a in dmap.get(name, []))
    ok_slots = (
        made_by(order[1], "diff", order[0]) and made_by(order[2], "diff", order[1])
        and any(k == "solve" and a and a[0].replace(" ", "") in ("%s-y" % order[0],) for k, a in dmap.get(order[3], []))
    )
    chk.instance("B-slots", "get_func returns %s; second = diff(first), third = diff(second), fourth = solve(first - y): %s; stored as %s" % (order, ok_slots, slots))
    if not ok_slots:
        chk.violation("B-slots", gf.key, "derivative-chain", "get_func no longer returns (f, diff(f,x), diff(diff(f,x),x), solve(f-y,x)): %s / %s" % (order, dmap), file=VAR, line=gf.lineno)
    want = {"get_x2y": slots[0], "get_dydx": slots[1], "get_d2ydx2": slots[2], "get_y2x": slots[3]}
    for acc, slot in want.items():
        fn = repo.fn("%s::Bound.%s" % (VAR, acc))
        used = {x.attr for x in ast.walk(fn.node) if isinstance(x, ast.Attribute) and isinstance(x.value, ast.Name) and x.value.id == "self" and x.attr in slots}
        ok = used == {slot}
        chk.instance("B-slots", "Bound.%s reads self.%s: %s" % (acc, "/".join(sorted(used)), ok))
        if not ok:
            chk.violation("B-slots", fn.key, "slot", "%s must evaluate self.%s but reads %s" % (acc, slot, sorted(used)), file=VAR, line=fn.lineno)
    chk.require_count("B-slots", 5)


def _arr(*names):
    import numpy as np

    return np.array([sp.Symbol(n) for n in names], dtype=object)


def chain_formulas(repo, chk, only=None):
    """E6 on a two-parameter component model: dy=(d1,d2), d2y=(e1,e2), g=(g1,g2), H 2x2, p=(p1,p2), V 2x2."""
    import numpy as np

    dy, d2y, g, pp, y = _arr("d1", "d2"), _arr("e1", "e2"), _arr("g1", "g2"), _arr("p1", "p2"), _arr("y1", "y2")
    H = np.array([[sp.Symbol("h11"), sp.Symbol("h12")], [sp.Symbol("h21"), sp.Symbol("h22")]], dtype=object)
    V = np.array([[sp.Symbol("v11"), sp.Symbol("v12")], [sp.Symbol("v21"), sp.Symbol("v22")]], dtype=object)
    hp = _arr("hp1", "hp2")
    F = sp.Symbol("F")

    def tail(fn, env):
        tr = Translator(repo, hooks={"stack_as_array": True})
        loop, _ = loop_facts(fn.node)
        started, out = False, None
        for st in fn.node.body:
            if st is loop:
                started = True
                continue
            if not started:
                continue
            if isinstance(st, ast.Return):
                out = tr.eval(st.value, env, fn.mod, 0)
                break
            if isinstance(st, ast.Assign):
                try:
                    tr.exec_stmt(st, env, fn.mod, 0)
                except Unmodelled as e:
                    raise AnalysisError("%s: statement after the transform loop not modelled: %s" % (fn.key, e))
        return out

    def cmp(fn, text, got, want, call_args=None, want_args=None):
        import numpy as np

        def flat(x):
            if isinstance(x, (tuple, list)):
                r = []
                for i in x:
                    r.extend(flat(i))
                return r
            if isinstance(x, np.ndarray):
                return [sp.sympify(v) for v in x.ravel()] + [sp.Integer(k) for k in x.shape]
            return [sp.sympify(x)]

        ok, detail = True, ""
        a, b = flat(got), flat(want)
        if len(a) != len(b):
            ok, detail = False, "shape/arity differs: %s vs %s" % (got, want)
        else:
            for u, v in zip(a, b):
                e, d = equal(u, v)
                if e is None:
                    raise AnalysisError("%s: normaliser too weak: %s" % (fn.key, d))
                if not e:
                    ok, detail = False, "component %s, chain rule requires %s" % (u, v)
                    break
        if ok and want_args is not None:
            ca, wa = flat(list(call_args or [])), flat(list(want_args))
            if len(ca) != len(wa) or not all(equal(u, v)[0] for u, v in zip(ca, wa)):
                ok, detail = False, "inner function evaluated at %s, chain rule requires %s" % (call_args, want_args)
        chk.instance("B-chain", "%s: %s -> %s" % (fn.key, text, "ok" if ok else "FAIL " + detail))
        if not ok:
            chk.violation("B-chain", fn.key, "formula", "%s violated: %s" % (text, detail), file=VAR, line=fn.lineno)

    if only in (None, "grad"):
        fn = repo.fn("%s::VarsManager.trans_fcn_grad.fcn_t" % VAR)
        rec = {}
        env = {"yvals": y, "dydxs": dy, "fcn_grad": PyFunc(lambda *a: (rec.setdefault("args", a), (F, g))[1])}
        out = tail(fn, env)
        cmp(fn, "value passes through, grad_i == g_i*dy_i, inner call at y", out, (F, g * dy), rec.get("args"), (y,))
    if only in (None, "hessp"):
        fn = repo.fn("%s::VarsManager.trans_grad_hessp.f_wrap" % VAR)
        rec = {}
        env = {"yvals": y, "dydxs": dy, "dydxs2": d2y, "p": pp, "f": PyFunc(lambda *a: (rec.setdefault("args", a), (g, hp))[1])}
        out = tail(fn, env)
        cmp(fn, "grad_i == g_i*dy_i, hessp_i == Hp_i*dy_i + g_i*d2y_i*p_i, inner call at (y, p*dy)", out, (g * dy, hp * dy + g * d2y * pp), rec.get("args"), (y, pp * dy))
    if only in (None, "hess"):
        fn = repo.fn("%s::VarsManager.trans_f_grad_hess.f_wrap" % VAR)
        rec = {}
        env = {"yvals": y, "dydxs": dy, "dydxs2": d2y, "f": PyFunc(lambda *a: (rec.setdefault("args", a), (F, g, H))[1])}
        out = tail(fn, env)
        want_h = np.array([[dy[i] * H[i, j] * dy[j] + (g[i] * d2y[i] if i == j else 0) for j in range(2)] for i in range(2)], dtype=object)
        cmp(fn, "hess_ij == dy_i*H_ij*dy_j + delta_ij*g_i*d2y_i", out, (F, g * dy, want_h), rec.get("args"), (y,))
    if only in (None, "cov"):
        fn = repo.fn("%s::VarsManager.trans_error_matrix" % VAR)
        env = {"dydxs": dy, "hess_inv": V, "xvals": y}
        out = tail(fn, env)
        want_v = np.array([[dy[i] * V[i, j] * dy[j] for j in range(2)] for i in range(2)], dtype=object)
        cmp(fn, "V_y[i,j] == dy_i*V_ij*dy_j (rows and columns scaled)", out, want_v)


# --------------------------------------------------------------------------- (c)
FRESH = [
    ("tf_pwa/model/model.py::BaseModel.grad_hessp_batch", "hess_product_vector_i", "p"),
    ("tf_pwa/model/opt_int.py::ModelCachedAmp.grad_hessp_batch", "hess_product_vector_i", "p"),
]


def clause_c(repo, chk):
    """a buffer created lazily from a per-call argument must be refreshed from that argument on every call"""
    from ..cfg import CFG, forward, witness_path

    chk.rule("C-fresh", "a lazily created per-call buffer (if not hasattr(self, X): self.X = f(arg)) is re-filled from `arg` on every path before it is used (a stale direction vector makes the Hessian-vector product wrong from the second call on)")
    # discover the pattern so that a new instance cannot hide
    found = set()
    for rel in ("tf_pwa/model/model.py", "tf_pwa/model/opt_int.py", "tf_pwa/model/cfit.py", "tf_pwa/model/custom.py"):
        m = repo.mod(rel)
        for f in m.funcs.values():
            for n in walk_local(f.node):
                if isinstance(n, ast.If) and norm_text(n.test).startswith("not hasattr(self,"):
                    found.add(f.key)
    for key, attr, par in FRESH:
        fn = repo.fn(key)
        if par not in fn.all_param_names():
            raise AnalysisError("%s lost its parameter %s" % (key, par))
        found.discard(key)
        cfg = CFG(fn.node)

        # plain local aliases of the buffer (hess_p = self.<attr>) stand for the buffer; the aliasing statement is no use
        def _is_buffer_read(v):
            if isinstance(v, ast.Attribute) and v.attr == attr and isinstance(v.value, ast.Name) and v.value.id == "self":
                return True
            return (isinstance(v, ast.Call) and isinstance(v.func, ast.Name) and v.func.id == "getattr" and len(v.args) >= 2
                    and isinstance(v.args[0], ast.Name) and v.args[0].id == "self" and isinstance(v.args[1], ast.Constant) and v.args[1].value == attr)

        alias_stmts = [x for x in walk_local(fn.node) if isinstance(x, ast.Assign) and len(x.targets) == 1 and isinstance(x.targets[0], ast.Name) and _is_buffer_read(x.value)]
        aliases = {x.targets[0].id for x in alias_stmts}
        # hess_p = self.<attr> = [...]: the local and the attribute are bound to the same new buffer
        for x in walk_local(fn.node):
            if isinstance(x, ast.Assign) and len(x.targets) > 1 and any(_is_buffer_read(t_) for t_ in x.targets):
                aliases |= {t_.id for t_ in x.targets if isinstance(t_, ast.Name)}

        def _guard(node_, sc_):
            """a test that only asks whether the buffer exists yet"""
            if node_.kind != "test":
                return False
            t_ = norm_text(sc_).replace(" ", "")
            if t_.startswith("nothasattr(self,") or t_.startswith("hasattr(self,"):
                return True
            for al in aliases:
                if t_ in ("%sisNone" % al, "%sisnotNone" % al, "not%s" % al, al):
                    return True
            return False

        def mentions(node_ast, name_attr=attr, name_par=par):
            has_attr = any((isinstance(x, ast.Attribute) and x.attr == name_attr) or (isinstance(x, ast.Name) and x.id in aliases) for x in ast.walk(node_ast))
            has_par = any(isinstance(x, ast.Name) and x.id == name_par for x in ast.walk(node_ast))
            # a helper method of the class that is handed the argument and fills the buffer from it
            for c_ in ast.walk(node_ast):
                if isinstance(c_, ast.Call) and isinstance(c_.func, ast.Attribute) and isinstance(c_.func.value, ast.Name) and c_.func.value.id == "self" and fn.cls is not None:
                    h_ = fn.cls.lookup(c_.func.attr)
                    if h_ is None:
                        continue
                    hp = [p_ for p_ in h_.all_param_names() if p_ != "self"]
                    bound_ = {hp[i_]: a_ for i_, a_ in enumerate(c_.args) if i_ < len(hp)}
                    bound_.update({k_.arg: k_.value for k_ in c_.keywords if k_.arg})
                    inner_pars = {k_ for k_, v_ in bound_.items() if isinstance(v_, ast.Name) and v_.id == name_par}
                    for st_ in h_.node.body:
                        if isinstance(st_, ast.If) and norm_text(st_.test).replace(" ", "").startswith(("nothasattr(self,", "hasattr(self,")):
                            continue
                        m_attr = any(isinstance(x, ast.Attribute) and x.attr == name_attr for x in ast.walk(st_))
                        m_par = any(isinstance(x, ast.Name) and x.id in inner_pars for x in ast.walk(st_))
                        if m_attr and m_par:
                            has_attr = has_par = True
            return has_attr, has_par

        def scan(node):
            a = node.ast
            if a is None or node.kind in ("with_exit", "handler"):
                return None
            if node.kind == "test":
                return a.test
            if node.kind == "for":
                return ast.Tuple(elts=[a.iter, a.target], ctx=ast.Load())
            if isinstance(a, (ast.FunctionDef, ast.ClassDef)):
                return None
            return a

        def transfer(node, state, kind):
            if kind in ("exc", "gen"):
                return [state]
            sc = scan(node)
            if sc is None:
                return [state]
            has_attr, has_par = mentions(sc)
            is_guard = _guard(node, sc)
            if has_attr and has_par and not is_guard:
                return ["fresh"]
            return [state]

        at, wit = forward(cfg, "stale", transfer)
        bad = None
        n_use = 0
        for node in cfg.nodes:
            sc = scan(node)
            if sc is None:
                continue
            has_attr, has_par = mentions(sc)
            is_guard = _guard(node, sc)
            if any(sc is a_ for a_ in alias_stmts):
                continue
            if has_attr and not has_par and not is_guard:
                n_use += 1
                if "stale" in at[node.id]:
                    bad = (node, witness_path(cfg, wit, node.id, "stale"))
                    break
        chk.instance("C-fresh", "%s: self.%s refreshed from `%s` before each of its %d uses: %s" % (key, attr, par, n_use, bad is None))
        if n_use == 0:
            raise AnalysisError("%s: no use of self.%s found" % (key, attr))
        if bad is not None:
            node, path = bad
            chk.violation("C-fresh", key, "stale:%s" % attr, "self.%s is used at `%s` on a path where it was not re-filled from the argument `%s` (only when it is first created): path %s" % (attr, norm_text(node.ast)[:60], par, " -> ".join(path[-8:])), file=key.split("::")[0], line=node.lineno, path=path)
    for key in sorted(found):
        chk.info("lazily initialised attribute in %s is not on the frozen C-fresh list" % key)
    chk.require_count("C-fresh", 2)


# --------------------------------------------------------------------------- (d)
def clause_d(repo, chk):
    """seed-driven: (D-order) constraint terms are read after the parameters were set; (D-safelog) the log
    inside clip_log is taken of a guarded argument (otherwise the gradient of the unselected branch is NaN)"""
    from ..mustpass import must_pass

    chk.rule("D-order", "in every FCN / CombineFCN entry point that takes a parameter point x, the Gaussian-constraint value/gradient/Hessian are read on every path after the call that writes x into the model (get_nll / get_nll_grad / get_nll_grad_hessian / get_grad_hessp / get_grad)")
    chk.rule("D-safelog", "clip_log takes tf.math.log of a tf.where-guarded argument whose condition is the condition of the outer tf.where (the raw argument would give a NaN gradient through the unselected branch at x <= 0)")
    setters = {"get_nll", "get_nll_grad", "get_nll_grad_hessian", "get_grad_hessp", "get_grad"}
    n = 0
    for cname in ("FCN", "CombineFCN"):
        cls = repo.cls("%s::%s" % (MODEL, cname))
        for mname in ("__call__", "grad", "nll_grad", "nll_grad_hessian", "grad_hessp"):
            fn = cls.methods[mname]

            def is_event(node, sc):
                return any(isinstance(x, ast.Call) and isinstance(x.func, ast.Attribute) and x.func.attr in setters and isinstance(x.func.value, ast.Name) and x.func.value.id == "self" for x in ast.walk(sc))

            def is_sink(node, sc):
                # (the constraint Hessian 1/sigma^2 does not depend on the parameter point - rule G-constr shows it - so it
                # may be read at any time; value and gradient are taken at the current point)
                return any(isinstance(x, ast.Call) and isinstance(x.func, ast.Attribute) and x.func.attr.startswith("get_constrain") and x.func.attr != "get_constrain_hessian" for x in ast.walk(sc))

            cfg, n_sinks, bad = must_pass(fn.node, is_event, is_sink)
            # inside one statement the setter must come first in evaluation order
            inline_bad = None
            for node in cfg.nodes:
                from ..mustpass import scan_of

                sc = scan_of(node)
                if sc is not None and is_event(node, sc) and is_sink(node, sc):
                    pos_set = min((x.lineno, x.col_offset) for x in ast.walk(sc) if isinstance(x, ast.Call) and isinstance(x.func, ast.Attribute) and x.func.attr in setters)
                    pos_con = min((x.lineno, x.col_offset) for x in ast.walk(sc) if isinstance(x, ast.Call) and isinstance(x.func, ast.Attribute) and x.func.attr.startswith("get_constrain") and x.func.attr != "get_constrain_hessian")
                    if pos_con < pos_set:
                        inline_bad = node
            n += 1
            chk.instance("D-order", "%s.%s: %d constraint reads, all after the parameter-setting call: %s" % (cname, mname, n_sinks, not bad and inline_bad is None))
            if bad or inline_bad is not None:
                node = bad[0][0] if bad else inline_bad
                chk.violation("D-order", fn.key, "stale-constraint", "a Gaussian-constraint term is read (line %s) before the call that writes the requested point into the model: it is evaluated at the previous parameter values, so the returned value/gradient do not belong to x" % node.lineno, file=MODEL, line=node.lineno)
    if n < 10:
        raise AnalysisError("fewer than 10 entry points checked for D-order")
    cl = repo.fn("%s::clip_log" % MODEL)
    x = cl.params[0]
    logs = [c for c in walk_local(cl.node) if isinstance(c, ast.Call) and norm_text(c.func).endswith("math.log") or (isinstance(c, ast.Call) and norm_text(c.func) in ("tf.log",))]
    outer = [r.value for r in walk_local(cl.node) if isinstance(r, ast.Return)]
    if not logs or not outer or not (isinstance(outer[0], ast.Call) and norm_text(outer[0].func) == "tf.where"):
        raise AnalysisError("clip_log: tf.math.log / outer tf.where not found")
    defs = single_defs(cl.node)
    cond_outer = norm_text(expand(outer[0].args[0], defs))  # a shared condition variable is looked through
    ok = True
    for lg in logs:
        arg = lg.args[0]
        a = expand(arg, defs)
        guarded = isinstance(a, ast.Call) and norm_text(a.func) == "tf.where" and norm_text(a.args[0]) == cond_outer and norm_text(a.args[1]) == x
        if not guarded:
            ok = False
            chk.violation("D-safelog", cl.key, "raw-log", "tf.math.log is applied to `%s`, not to a tf.where(%s, %s, <positive>) guarded value: where the clipped branch is selected the log branch still contributes 0 * inf = NaN to the gradient" % (norm_text(arg), cond_outer, x), file=MODEL, line=lg.lineno)
    chk.instance("D-safelog", "clip_log: log of a value guarded by `%s`: %s" % (cond_outer, ok))


ONCE_LEVELS = {
    "value": ("get_nll",),
    "grad": ("get_grad", "get_nll_grad"),
    "hess": ("get_nll_grad_hessian", "get_grad_hessp"),
}


def check_constraint_once(repo, chk, levels, rule="A-once"):
    """the Gaussian-constraint terms are added by the public entry points (__call__, grad, nll_grad, nll_grad_hessian,
    grad_hessp) of FCN / CombineFCN; the likelihood-level methods get_* that CombineFCN sums over its parts must not
    reach them again, otherwise a simultaneous fit counts the penalty once per data set plus once more"""
    from ..resolve import Resolver

    res = Resolver(repo)
    chk.rule(rule, "no likelihood-level method (get_*) of FCN / CombineFCN reaches a GaussianConstr term through the call graph: the constraint penalty, gradient and Hessian enter a (simultaneous) fit exactly once, at the public entry point")
    M = "tf_pwa/model/model.py::"
    gc = repo.cls(M + "GaussianConstr")
    targets = {f.key for f in gc.methods.values() if f.name.startswith("get_constrain")}
    if len(targets) < 3:
        raise AnalysisError("GaussianConstr.get_constrain_{term,grad,hessian} not found")
    n = 0
    for lv in levels:
        for cname in ("FCN", "CombineFCN"):
            for mname in ONCE_LEVELS[lv]:
                start = repo.cls(M + cname).methods.get(mname)
                if start is None:
                    raise AnalysisError("anchor vanished: %s.%s" % (cname, mname))
                seen, todo = {}, [(start.key, None)]
                while todo:
                    k, par = todo.pop()
                    if k in seen:
                        continue
                    seen[k] = par
                    f = repo.fn_opt(k)
                    if f is None or k in targets:
                        continue
                    for c in walk_local(f.node):
                        if isinstance(c, ast.Call):
                            cands, how = res.resolve_call(f, c)
                            if how in ("generic", "external"):
                                continue
                            for x in cands:
                                if hasattr(x, "node") and hasattr(x, "key") and "::" in x.key and x.key not in seen:
                                    todo.append((x.key, (k, c.lineno)))
                hit = sorted(t for t in targets if t in seen)
                n += 1
                chk.oblige(rule, "%s.%s: %d functions reachable, GaussianConstr terms among them: %s" % (cname, mname, len(seen), [h.split("::")[1] for h in hit] or "none"), not hit)
                if hit:
                    path = [hit[0]]
                    while seen[path[-1]]:
                        path.append(seen[path[-1]][0])
                    path.reverse()
                    first_line = seen[path[1]][1] if len(path) > 1 else start.lineno
                    chk.violation(rule, start.key, "reaches:" + hit[0].split("::")[1], "the likelihood-level method reaches %s (path %s): in a simultaneous fit the constraint is counted once per part and again at the public entry point, so the value/gradient/Hessian is not that of the minimised function" % (hit[0].split("::")[1], " -> ".join(p.split("::")[1] for p in path)), file="tf_pwa/model/model.py", line=first_line, path=[p for p in path])
    return n


def check_gauss_constr(repo, chk, parts=("value", "grad", "hess")):
    """GaussianConstr interpreted on a manager with a trainable and a fixed constrained parameter"""
    import numpy as np
    import sympy as sp

    from ..sym import SelfObj, Translator, Unmodelled, equal
    MODEL = "tf_pwa/model/model.py"
    chk.rule("G-constr", "GaussianConstr on a manager with trainable a (carrying a range, as during a fit), c and fixed b, constraints on a and b: the term is sum_i (theta_i - mu_i)^2 / (2 sigma_i^2) over every constrained parameter (a fixed one included: it is part of the reported NLL, e.g. in a likelihood scan), and get_constrain_grad / get_constrain_hessian are its first / second derivatives with respect to the trainable parameters, in trainable_vars order")
    gc = repo.cls(MODEL + "::GaussianConstr")
    a, b, c = sp.symbols("theta_a theta_b theta_c", real=True)
    ma, mb = sp.symbols("mu_a mu_b", real=True)
    sa_, sb_ = sp.symbols("sigma_a sigma_b", positive=True)
    # a carries a range (the state between set_bound and remove_bound, i.e. during a fit): the penalty is a function of
    # the physical value, never of the fit coordinate
    bcls = repo.cls("tf_pwa/variable.py::Bound")
    y2x = sp.Function("fit_coordinate")
    hooks = {"concrete_zeros": True, "stack_as_array": True, "builtin.isinstance": lambda tr_, a_, k_, n_: True}
    for nm_ in ("get_y2x", "get_x2y"):
        if nm_ in bcls.methods:
            hooks[bcls.methods[nm_].key] = (lambda f_: (lambda tr_, args, kwargs, node: f_(sp.sympify(args[-1]))))(y2x if nm_ == "get_y2x" else sp.Function("physical_value"))
    vm = SelfObj(repo.cls("tf_pwa/variable.py::VarsManager"), {"variables": {"a": a, "b": b, "c": c}, "trainable_vars": ["a", "c"], "bnd_dic": {"a": SelfObj(bcls, {})}, "pre_trans": {}, "mask_vars": {}, "complex_vars": {}, "same_list": []})
    so = SelfObj(gc, {"vm": vm, "constraint": {"a": (ma, sa_), "b": [mb, sb_]}})
    want_term = (a - ma) ** 2 / (2 * sa_ ** 2) + (b - mb) ** 2 / (2 * sb_ ** 2)
    tr = Translator(repo, hooks=hooks, max_depth=3)

    def run_(name):
        m = gc.methods.get(name)
        if m is None:
            raise AnalysisError("anchor vanished: GaussianConstr.%s" % name)
        try:
            return m, tr.call_fn(m, [], {}, self_obj=so)
        except Unmodelled as e:
            raise AnalysisError("GaussianConstr.%s cannot be interpreted: %s" % (name, e))

    if "value" in parts:
        m, term = run_("get_constrain_term")
        ok = equal(sp.sympify(term), want_term)[0] is True
        chk.oblige("G-constr", "get_constrain_term == (a-mu_a)^2/(2 s_a^2) + (b-mu_b)^2/(2 s_b^2) (b fixed)", ok)
        if not ok:
            chk.violation("G-constr", m.key, "term", "the constraint term is %s, the documented penalty of the configured constraints is %s" % (term, want_term), file=MODEL, line=m.lineno)
    if "grad" in parts:
        m, g = run_("get_constrain_grad")
        g = [sp.sympify(x) for x in np.asarray(g, dtype=object).reshape(-1)]
        want = [sp.diff(want_term, a), sp.diff(want_term, c)]
        ok = len(g) == 2 and all(equal(x, y)[0] is True for x, y in zip(g, want))
        chk.oblige("G-constr", "get_constrain_grad == d term / d (a, c)", ok)
        if not ok:
            chk.violation("G-constr", m.key, "grad", "the constraint gradient is %s, the derivative of the penalty with respect to the trainable (a, c) is %s" % (g, want), file=MODEL, line=m.lineno)
    if "hess" in parts:
        m, h = run_("get_constrain_hessian")
        h = np.asarray(h, dtype=object)
        want = [[sp.diff(want_term, x, y) for y in (a, c)] for x in (a, c)]
        ok = h.shape == (2, 2) and all(equal(sp.sympify(h[i, j]), want[i][j])[0] is True for i in range(2) for j in range(2))
        chk.oblige("G-constr", "get_constrain_hessian == d2 term / d (a, c)^2", ok)
        if not ok:
            chk.violation("G-constr", m.key, "hess", "the constraint Hessian is %s, the second derivative of the penalty with respect to (a, c) is %s" % (h.tolist(), want), file=MODEL, line=m.lineno)


def check_sumvar(repo, chk):
    """SumVar carries value / gradient / Hessian of a batched sum; adding two batches adds all three"""
    import sympy as sp

    from ..sym import SelfObj, Translator, Unmodelled, equal
    VARF = "tf_pwa/variable.py"
    chk.rule("S-sumvar", "SumVar.__add__ interpreted on two symbolic batch results: value, gradient and Hessian of the sum are the sums of the parts' (nested structures leaf by leaf); the Hessian is dropped only if a part has none")
    sv = repo.cls_opt(VARF + "::SumVar") if hasattr(repo, "cls_opt") else repo.cls(VARF + "::SumVar")
    add = sv.methods.get("__add__")
    if add is None:
        raise AnalysisError("anchor vanished: SumVar.__add__")

    def mk(tag, hess=True):
        v = [sp.Symbol("v%s_%d" % (tag, i)) for i in range(2)]
        g = [sp.Symbol("g%s_%d" % (tag, i)) for i in range(2)]
        h = [sp.Symbol("h%s_%d" % (tag, i)) for i in range(2)] if hess else None
        return SelfObj(sv, {"value": list(v), "grad": list(g), "hess": h, "var": ["x", "y"]}), v, g, h

    for h1, h2 in ((True, True), (True, False), (False, True)):
        A, va, ga, ha = mk("A", h1)
        B, vb, gb, hb = mk("B", h2)
        tr = Translator(repo, hooks={"construct": {sv.key}, "builtin.isinstance": lambda tr_, a_, k_, n_: isinstance(a_[0], SelfObj) and a_[0].cls is sv}, max_depth=3)
        try:
            out = tr.call_fn(add, [B], {}, self_obj=A)
        except Unmodelled as e:
            raise AnalysisError("SumVar.__add__ cannot be interpreted: %s" % e)
        if not isinstance(out, SelfObj):
            raise AnalysisError("SumVar.__add__ does not return a SumVar in the abstract run: %r" % (out,))
        want = {"value": [x + y for x, y in zip(va, vb)], "grad": [x + y for x, y in zip(ga, gb)], "hess": [x + y for x, y in zip(ha, hb)] if (h1 and h2) else None}
        bad = []
        for k, w in want.items():
            got = out.attrs.get(k)
            if w is None:
                if got is not None:
                    bad.append("%s is %s although a part carries none" % (k, got))
            elif not (isinstance(got, (list, tuple)) and len(got) == len(w) and all(equal(sp.sympify(x), y)[0] is True for x, y in zip(got, w))):
                bad.append("%s of the sum is %s, expected %s" % (k, got, w))
        chk.oblige("S-sumvar", "SumVar + SumVar (Hessians present: %s, %s): components add" % (h1, h2), not bad)
        for b in bad[:2]:
            chk.violation("S-sumvar", add.key, "add:%s%s" % (int(h1), int(h2)), "SumVar.__add__: %s - the normalisation integral of a batched custom model then has the wrong value / derivatives for more than one phase-space batch" % b, file=VARF, line=add.lineno)


def check_sumvar_call(repo, chk):
    """SumVar() re-attaches the stored derivatives to the variables: value counted once"""
    import numpy as np
    import sympy as sp

    from ..sym import SelfObj, Translator, Unmodelled, equal
    VARF = "tf_pwa/variable.py"
    chk.rule("S-sumvar", "SumVar(value, grad, var) followed by SumVar.__call__, interpreted with tf.stop_gradient as an uninterpreted function SG: the result is SG(value) + sum_k grad_k (var_k - SG(var_k)) [+ 1/2 sum_kl hess_kl (var_k - SG(var_k))(var_l - SG(var_l))] - the stored value enters gradient-stopped, so an enclosing tape sees each derivative exactly once")
    sv = repo.cls(VARF + "::SumVar")
    init, call = sv.methods.get("__init__"), sv.methods.get("__call__")
    if init is None or call is None:
        raise AnalysisError("anchor vanished: SumVar.__init__ / __call__")
    SG = sp.Function("SG")

    def first(tr, d, args, kwargs, n):
        if d.split(".")[-1] == "stop_gradient":
            a = args[0]
            if isinstance(a, np.ndarray):
                out = np.empty(a.shape, dtype=object)
                for i in np.ndindex(a.shape):
                    out[i] = SG(a[i])
                return out
            return SG(sp.sympify(a))
        return NotImplemented

    x, y = sp.symbols("x y", real=True)
    v = sp.Symbol("v", real=True)
    g = np.array([sp.Symbol("gx", real=True), sp.Symbol("gy", real=True)], dtype=object)
    h = np.array([[sp.Symbol("hxx", real=True), sp.Symbol("hxy", real=True)], [sp.Symbol("hxy", real=True), sp.Symbol("hyy", real=True)]], dtype=object)
    for with_h in (False, True):
        so = SelfObj(sv, {})
        tr = Translator(repo, hooks={"numeric_call_first": first, "allow_attr_store": True, "stack_as_array": True}, max_depth=3)
        try:
            tr.call_fn(init, [v, g, [x, y]], {"hess": h} if with_h else {}, self_obj=so)
            out = tr.call_fn(call, [], {}, self_obj=so)
        except Unmodelled as e:
            raise AnalysisError("SumVar.__init__ / __call__ cannot be interpreted: %s" % e)
        dx, dy = x - SG(x), y - SG(y)
        want = SG(v) + g[0] * dx + g[1] * dy
        if with_h:
            want = want + sp.Rational(1, 2) * (h[0, 0] * dx * dx + 2 * h[0, 1] * dx * dy + h[1, 1] * dy * dy)
        ok = equal(sp.sympify(out), want)[0] is True
        chk.oblige("S-sumvar", "SumVar(v, g, [x, y]%s)() == SG(v) + g.(var - SG(var))%s" % (", hess" if with_h else "", " + 1/2 (var-SG(var)).H.(var-SG(var))" if with_h else ""), ok)
        if not ok:
            chk.violation("S-sumvar", call.key, "call:%s" % ("hess" if with_h else "grad"), "SumVar()%s evaluates to %s, expected %s: if the stored value is not gradient-stopped, error propagation through a batched sum counts the derivative twice" % (" with a Hessian" if with_h else "", out, want), file=VARF, line=call.lineno)


def check_transform_wrappers(repo, chk, only=None):
    """the four bound-transform wrappers of VarsManager interpreted as a whole on a manager with one bounded (a) and
    one free (b) trainable variable: what the inner function is called with, and what comes back"""
    import numpy as np
    import sympy as sp

    from ..sym import PyFunc, SelfObj, Translator, Unmodelled, equal
    VARF = "tf_pwa/variable.py"
    chk.rule("B-wrap", "trans_fcn_grad / trans_grad_hessp / trans_f_grad_hess / trans_error_matrix interpreted as a whole on a manager with a bounded variable a (x -> y = Y(x), slopes as free real symbols) and a free variable b: the inner function is evaluated at (Y(x_a), x_b) (and p * dy), and value, gradient g dy, Hessian-vector product hp dy + g d2y p, Hessian dy H dy + diag(g d2y) and covariance dy_i V_ij dy_j come back - computed from the point x that was passed in, not from a transformed copy of it")
    vm = repo.cls(VARF + "::VarsManager")
    xa, xb = sp.symbols("x_a x_b", real=True)
    Y = sp.Function("Y")
    d1, e1 = sp.symbols("dy_a d2y_a", real=True)
    g1, g2, hp1, hp2, p1, p2, F = sp.symbols("g1 g2 hp1 hp2 p1 p2 F", real=True)
    H = np.array([[sp.Symbol("h11", real=True), sp.Symbol("h12", real=True)], [sp.Symbol("h12", real=True), sp.Symbol("h22", real=True)]], dtype=object)
    V = np.array([[sp.Symbol("v11", real=True), sp.Symbol("v12", real=True)], [sp.Symbol("v12", real=True), sp.Symbol("v22", real=True)]], dtype=object)
    seen_x = []

    def slot(kind):
        def f_(x):
            seen_x.append((kind, sp.sympify(x)))
            return {"x2y": Y(x), "dydx": d1, "d2ydx2": e1}[kind]
        return PyFunc(f_)

    bound = SelfObj(None, {"get_x2y": slot("x2y"), "get_dydx": slot("dydx"), "get_d2ydx2": slot("d2ydx2")})
    dom = {"dy_a": (sp.Rational(-2), sp.Rational(-1, 2))}  # a falling transform (upper-only bound): |dy| != dy

    def run_(name, inner, args):
        fn = vm.methods.get(name)
        if fn is None:
            raise AnalysisError("anchor vanished: VarsManager.%s" % name)
        so = SelfObj(vm, {"trainable_vars": ["a", "b"], "bnd_dic": {"a": bound}})
        tr = Translator(repo, hooks={"stack_as_array": True, "concrete_zeros": True}, max_depth=3)
        del seen_x[:]
        try:
            w = tr.call_fn(fn, ([PyFunc(inner)] if inner is not None else []) + (args if inner is None else []), {}, self_obj=so)
            if inner is not None:
                w = tr.apply(w, args, {}, None, 1)
        except Unmodelled as e:
            raise AnalysisError("VarsManager.%s cannot be interpreted: %s" % (name, e))
        return fn, w

    def compare(fn, label, got, want):
        def flat(x):
            if isinstance(x, (tuple, list)):
                return [z for i in x for z in flat(i)]
            if isinstance(x, np.ndarray):
                return [sp.sympify(v) for v in x.ravel()]
            return [sp.sympify(x)]
        a, b = flat(got), flat(want)
        ok = len(a) == len(b) and all(equal(u, v, symbols_domain=dom)[0] is True for u, v in zip(a, b))
        chk.oblige("B-wrap", "%s: %s" % (fn.key.split("::")[1], label), ok)
        if not ok:
            chk.violation("B-wrap", fn.key, label.split(":")[0], "%s: got %s, the chain rule for y = (Y(x_a), x_b) requires %s" % (label, [str(z) for z in a][:8], [str(z) for z in b][:8]), file=VARF, line=fn.lineno)
        bad_x = [(k, x) for k, x in seen_x if x != xa]
        if bad_x:
            chk.violation("B-wrap", fn.key, "point:" + label.split(":")[0], "%s: the bound transform / its slope is evaluated at %s instead of the point x_a that was passed in (the transformed copy aliases the input)" % (label, bad_x[0][1]), file=VARF, line=fn.lineno)

    x = [xa, xb]
    ywant = [Y(xa), xb]
    calls = []
    if only in (None, "grad"):
        fn, out = run_("trans_fcn_grad", lambda y: (calls.append(("fg", y)), (F, np.array([g1, g2], dtype=object)))[1], [list(x)])
        compare(fn, "value-grad: (F, g dy)", out, (F, [g1 * d1, g2]))
        compare(fn, "inner-point: f evaluated at (Y(x_a), x_b)", calls[-1][1] if calls else None, ywant)
    if only in (None, "hessp"):
        del calls[:]
        fn, out = run_("trans_grad_hessp", lambda y, p: (calls.append(("gh", y, p)), (np.array([g1, g2], dtype=object), np.array([hp1, hp2], dtype=object)))[1], [list(x), np.array([p1, p2], dtype=object)])
        compare(fn, "grad-hessp: (g dy, hp dy + g d2y p)", out, ([g1 * d1, g2], [hp1 * d1 + g1 * e1 * p1, hp2]))
        compare(fn, "inner-point: f evaluated at (Y(x_a), x_b) with p dy", list(calls[-1][1:]) if calls else None, [ywant, [p1 * d1, p2]])
    if only in (None, "hess"):
        del calls[:]
        fn, out = run_("trans_f_grad_hess", lambda y: (calls.append(("fgh", y)), (F, np.array([g1, g2], dtype=object), H.copy()))[1], [list(x)])
        compare(fn, "value-grad-hess: (F, g dy, dy H dy + diag(g d2y))", out, (F, [g1 * d1, g2], [[d1 * H[0, 0] * d1 + g1 * e1, d1 * H[0, 1]], [H[1, 0] * d1, H[1, 1]]]))
        compare(fn, "inner-point: f evaluated at (Y(x_a), x_b)", calls[-1][1] if calls else None, ywant)
    if only in (None, "cov"):
        fn, out = run_("trans_error_matrix", None, [V.copy(), list(x)])
        compare(fn, "covariance: dy_i V_ij dy_j", out, [[d1 * V[0, 0] * d1, d1 * V[0, 1]], [V[1, 0] * d1, V[1, 1]]])


def run(repo, chk, tier):
    from ..tapescope import check_tape_scope

    check_tape_scope(repo, chk, ["tf_pwa/model/"], min_functions=10)
    # the value returned with a gradient is the stand-alone NLL only if no part of it is remembered from an earlier
    # call with other samples (shared with C06)
    from ..cacheown import check_persistent_state

    check_persistent_state(repo, chk, ["tf_pwa/model/"])
    from .c07_hesschain import check_hessian_chain

    check_hessian_chain(repo, chk)
    check_transform_wrappers(repo, chk)
    check_sumvar(repo, chk)
    check_sumvar_call(repo, chk)
    check_gauss_constr(repo, chk)
    check_constraint_once(repo, chk, ("value", "grad", "hess"))
    chk.assume("tensor shapes are abstracted: x[:, None] / x[None, :] are identities, products commute (diagonal scalings)")
    clause_a(repo, chk)
    clause_b(repo, chk)
    clause_c(repo, chk)
    clause_d(repo, chk)
    chk.require_count("B-chain", 4)
