"""T-tape: what a GradientTape differentiates must be computed while the tape records.

A value that depends on the fit parameters and is computed *before* the `with tf.GradientTape()` block is a constant for
the tape: the derivative through it is silently dropped (the value itself stays right, so no test on values sees it).
Rule, per function that opens a tape:
  - the differentiated quantities are the first arguments of `<tape>.gradient / jacobian / batch_jacobian`;
  - their backward slice (assignments, augmented assignments, loop targets, list appends) is followed through the
    function;
  - a definition in that slice that lies outside every tape block, can reach the block (it is not in the other arm of an
    `if`), and evaluates the model - a call of a callable parameter of the function (`amp(...)`, `w_flatmc()`, `f(...)`),
    a method call on `self` / on a parameter object other than a plain data accessor - or does arithmetic on such a
    value, is a violation.
Exempt, with the reason: model calls wrapped in `SumVar.from_call*` (the SumVar re-attaches value, gradient and Hessian by
its Taylor form - decided by S-sumvar), data accessors (`get`, `items`, `keys`, `values`, `copy`, `numpy`, `shape`) and
module-level helpers that only regroup data (`zip`, `enumerate`, `list`, `_loop_generator`, `split_generator` ...: they
are not calls of a parameter or of the model object)."""
import ast

from .model import AnalysisError, norm_text

DATA_ACCESSORS = {"get", "items", "keys", "values", "copy", "numpy", "shape", "pop", "index"}
TAYLOR_WRAPPERS = {"from_call", "from_call_with_hess"}


def _names(target):
    if isinstance(target, ast.Name):
        return [target.id]
    if isinstance(target, (ast.Tuple, ast.List)):
        out = []
        for e in target.elts:
            out += _names(e)
        return out
    if isinstance(target, ast.Starred):
        return _names(target.value)
    return []


def _own_nodes(fn_node):
    """nodes of the function body, nested function / lambda bodies excluded (lambdas are kept as opaque nodes)"""
    todo = list(fn_node.body)
    while todo:
        n = todo.pop()
        yield n
        for c in ast.iter_child_nodes(n):
            if isinstance(c, (ast.FunctionDef, ast.AsyncFunctionDef, ast.ClassDef)):
                continue
            todo.append(c)


def _is_tape_with(w):
    return isinstance(w, ast.With) and any("GradientTape" in norm_text(i.context_expr) for i in w.items)


def _exclusive(parents, a, b):
    """a and b sit in different arms of one `if` that is not inside a loop containing both"""
    chain_a, x = [], a
    while id(x) in parents:
        p, field = parents[id(x)]
        chain_a.append((p, field))
        x = p
    chain_b, x = {}, b
    while id(x) in parents:
        p, field = parents[id(x)]
        chain_b[id(p)] = field
        x = p
    for p, field in chain_a:
        if isinstance(p, (ast.For, ast.While)) and id(p) in chain_b:
            return False
        if isinstance(p, ast.If) and id(p) in chain_b and field in ("body", "orelse") and chain_b[id(p)] in ("body", "orelse") and chain_b[id(p)] != field:
            return True
        if isinstance(p, ast.If) and id(p) not in chain_b and field in ("body", "orelse"):
            # an arm that always leaves the function (ends in return / raise): nothing defined in it reaches later code
            arm = getattr(p, field)
            if arm and isinstance(arm[-1], (ast.Return, ast.Raise)):
                return True
    return False


def _taylor_only(fn_node):
    """every call on `self` / a parameter in the function sits inside a from_call* wrapper (or in a lambda / nested def,
    evaluated where it is called), and there is at least one such wrapper"""
    taylor, deferred, n_wrap = set(), set(), 0
    for c in ast.walk(fn_node):
        if isinstance(c, ast.Call) and isinstance(c.func, ast.Attribute) and c.func.attr in TAYLOR_WRAPPERS:
            n_wrap += 1
            for x in ast.walk(c):
                taylor.add(id(x))
        if isinstance(c, ast.Lambda) or (isinstance(c, ast.FunctionDef) and c is not fn_node):
            for x in ast.walk(c.body if isinstance(c, ast.Lambda) else ast.Module(body=c.body, type_ignores=[])):
                deferred.add(id(x))
    if not n_wrap:
        return False
    a = fn_node.args
    params = {x.arg for x in a.posonlyargs + a.args + a.kwonlyargs}
    for c in ast.walk(fn_node):
        if not isinstance(c, ast.Call) or id(c) in taylor or id(c) in deferred:
            continue
        fn_ = c.func
        if isinstance(fn_, ast.Name) and fn_.id in params:
            return False
        if isinstance(fn_, ast.Attribute) and fn_.attr not in DATA_ACCESSORS:
            root = fn_.value
            while isinstance(root, (ast.Attribute, ast.Subscript, ast.Call)):
                root = root.value if not isinstance(root, ast.Call) else root.func
            if isinstance(root, ast.Name) and root.id in params and root.id not in ("tf", "np"):
                return False
    return True


def check_tape_scope(repo, chk, prefixes, rule="T-tape", min_functions=1):
    chk.rule(rule, "in every function that opens a tf.GradientTape, each model-dependent value in the backward slice of the differentiated quantity (a call of a callable parameter such as amp / w_flatmc / f, a method call on self or on a parameter object other than a data accessor, or arithmetic on such a value) is computed inside the tape block: computed before it, the value is a constant for the tape and the derivative through it is dropped while every value stays right")
    n_fn = 0
    for rel, m in sorted(repo.mods.items()):
        if "/tests/" in rel or not any(rel.startswith(p) for p in prefixes):
            continue
        for f in m.funcs.values():
            own = list(_own_nodes(f.node))
            withs = [w for w in own if _is_tape_with(w)]
            if not withs:
                continue
            n_fn += 1
            parents = {}
            for n in [f.node] + own:
                for field, val in ast.iter_fields(n):
                    for c in (val if isinstance(val, list) else [val]):
                        if isinstance(c, ast.AST):
                            parents[id(c)] = (n, field)
            inside = set()
            tapes = set()
            for w in withs:
                for x in ast.walk(w):
                    inside.add(id(x))
                for i in w.items:
                    if i.optional_vars is not None:
                        tapes.add(norm_text(i.optional_vars))
            a = f.node.args
            params = {x.arg for x in a.posonlyargs + a.args + a.kwonlyargs}
            if a.vararg:
                params.add(a.vararg.arg)
            if a.kwarg:
                params.add(a.kwarg.arg)
            targets = set()
            for c in own:
                if isinstance(c, ast.Call) and isinstance(c.func, ast.Attribute) and c.func.attr in ("gradient", "jacobian", "batch_jacobian") and norm_text(c.func.value) in tapes and c.args:
                    for n in ast.walk(c.args[0]):
                        if isinstance(n, ast.Name):
                            targets.add(n.id)
            if not targets:
                chk.instance(rule, "%s: tape opened, nothing differentiated in this function" % f.key, nontrivial=False)
                continue
            defs = {}
            for st in own:
                if isinstance(st, ast.Assign):
                    for t in st.targets:
                        for nm in _names(t):
                            defs.setdefault(nm, []).append((st.value, st))
                elif isinstance(st, (ast.AugAssign, ast.AnnAssign)) and isinstance(st.target, ast.Name) and st.value is not None:
                    defs.setdefault(st.target.id, []).append((st.value, st))
                elif isinstance(st, ast.NamedExpr) and isinstance(st.target, ast.Name):
                    defs.setdefault(st.target.id, []).append((st.value, st))
                elif isinstance(st, ast.For):
                    for nm in _names(st.target):
                        defs.setdefault(nm, []).append((st.iter, st))
                elif isinstance(st, ast.Call) and isinstance(st.func, ast.Attribute) and st.func.attr in ("append", "extend", "insert") and isinstance(st.func.value, ast.Name) and st.args:
                    defs.setdefault(st.func.value.id, []).append((st.args[-1], st))
            seen, todo = set(), list(targets)
            while todo:
                n = todo.pop()
                if n in seen:
                    continue
                seen.add(n)
                for rhs, _ in defs.get(n, []):
                    for x in ast.walk(rhs):
                        if isinstance(x, ast.Name):
                            todo.append(x.id)
            first_with = min(withs, key=lambda w: w.lineno)

            def model_calls(rhs):
                out = []
                taylor = set()
                for c in ast.walk(rhs):
                    if isinstance(c, ast.Call) and isinstance(c.func, ast.Attribute) and c.func.attr in TAYLOR_WRAPPERS:
                        for x in ast.walk(c):
                            taylor.add(id(x))
                # the body of a lambda / nested def is evaluated where it is CALLED, not where it is written
                deferred = set()
                for c in ast.walk(rhs):
                    if isinstance(c, (ast.Lambda, ast.FunctionDef)):
                        for x in ast.walk(c.body if isinstance(c, ast.Lambda) else ast.Module(body=c.body, type_ignores=[])):
                            deferred.add(id(x))
                for c in ast.walk(rhs):
                    if not isinstance(c, ast.Call) or id(c) in taylor or id(c) in deferred:
                        continue
                    fn_ = c.func
                    if isinstance(fn_, ast.Name) and fn_.id in params:
                        out.append(c)
                    elif isinstance(fn_, ast.Attribute) and fn_.attr not in DATA_ACCESSORS:
                        root = fn_.value
                        while isinstance(root, (ast.Attribute, ast.Subscript, ast.Call)):
                            root = root.value if not isinstance(root, ast.Call) else root.func
                        if isinstance(root, ast.Name) and (root.id == "self" or root.id in params) and root.id not in ("tf", "np"):
                            # a helper of the class that never touches the object (a @staticmethod, or a body without
                            # `self`) cannot evaluate the model
                            if root.id == "self" and isinstance(fn_.value, ast.Name) and f.cls is not None:
                                h_ = f.cls.lookup(fn_.attr)
                                if h_ is not None and (any(isinstance(d_, ast.Name) and d_.id == "staticmethod" for d_ in h_.node.decorator_list) or not any(isinstance(x, ast.Name) and x.id == "self" for b_ in h_.node.body for x in ast.walk(b_))):
                                    continue
                                # a helper that evaluates the model only inside SumVar.from_call* wrappers (or deferred
                                # in lambdas handed to them) returns Taylor objects: the same exemption one call deeper
                                if h_ is not None and _taylor_only(h_.node):
                                    continue
                            out.append(c)
                return out

            outside = []   # (name, rhs, stmt, reason)
            flagged = set()
            changed = True
            while changed:
                changed = False
                for n in sorted(seen):
                    for rhs, st in defs.get(n, []):
                        if id(st) in inside or st.lineno > max(w.end_lineno for w in withs):
                            continue
                        if all(_exclusive(parents, st, w) for w in withs):
                            continue
                        if any(o[2] is st for o in outside):
                            continue
                        mc = model_calls(rhs)
                        dep = [x.id for x in ast.walk(rhs) if isinstance(x, ast.Name) and x.id in flagged]
                        arithmetic = any(isinstance(x, (ast.BinOp, ast.UnaryOp)) for x in ast.walk(rhs)) or any(isinstance(x, ast.Call) for x in ast.walk(rhs))
                        if mc:
                            outside.append((n, rhs, st, "evaluates `%s` before the tape records" % norm_text(mc[0])[:50]))
                            flagged.add(n)
                            changed = True
                        elif dep and arithmetic:
                            outside.append((n, rhs, st, "is computed from `%s` before the tape records" % dep[0]))
                            flagged.add(n)
                            changed = True
            # a Python-level truth test of a model value that feeds the differentiated quantity: the branch is decided
            # by the VALUE (0.0 is false), and the arm not taken never enters the tape - at that value the derivative
            # with respect to the tested quantity is dropped although both arms give the same value there
            model_names = {n for n in seen for rhs, _ in defs.get(n, []) if model_calls(rhs)}
            branch_hits = []
            for c in own:
                tests = []
                if isinstance(c, (ast.If, ast.While, ast.IfExp)):
                    tests.append(c.test)
                elif isinstance(c, ast.BoolOp):
                    tests.extend(c.values[:-1])
                elif isinstance(c, ast.Assert):
                    continue
                todo_t = list(tests)
                while todo_t:
                    t = todo_t.pop()
                    if isinstance(t, ast.UnaryOp) and isinstance(t.op, ast.Not):
                        todo_t.append(t.operand)
                    elif isinstance(t, ast.BoolOp):
                        todo_t.extend(t.values)
                    elif isinstance(t, ast.Name) and t.id in model_names:
                        branch_hits.append((t.id, c))
            for nm_, c in branch_hits[:2]:
                chk.violation(rule, f.key, "truth-of:%s" % nm_, "`%s` is tested for truth (`%s`) and feeds the differentiated quantity (%s): the value 0.0 selects the arm in which `%s` does not enter the computation, so at that value the derivative with respect to it is missing from the gradient / Hessian although the value of the function is unchanged" % (nm_, norm_text(c.test if hasattr(c, "test") else c)[:60], ", ".join(sorted(targets)), nm_), file=rel, line=c.lineno)
            chk.instance(rule, "%s: tape(s) %s differentiate %s; slice of %d names, %d model-dependent definitions outside the tape, %d truth tests of a model value" % (f.key, ", ".join(sorted(tapes)), ", ".join(sorted(targets)), len(seen), len(outside), len(branch_hits)), nontrivial=True)
            for n, rhs, st, why in outside[:3]:
                chk.violation(rule, f.key, "outside-tape:%s" % n, "`%s = %s` %s, and `%s` feeds the differentiated quantity (%s): the tape treats it as a constant, so the derivative through it is missing from the returned gradient / Hessian although the value is unchanged" % (n, norm_text(rhs)[:60], why, n, ", ".join(sorted(targets))), file=rel, line=st.lineno)
    if n_fn < min_functions:
        raise AnalysisError("%s: %d functions with a GradientTape under %s (expected at least %d)" % (rule, n_fn, prefixes, min_functions))
    chk.require_count(rule, min_functions)
