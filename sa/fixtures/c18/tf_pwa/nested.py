"""Fixture for sa/props/c18.py - never imported, only parsed.

Expected classification: FIXTURE_EXPECT / FIXTURE_FORWARD in sa/props/c18.py.
"""
import numpy as np


def good_map(data, fun, opt=0):
    if isinstance(data, dict):
        return {k: good_map(v, fun, opt) for k, v in data.items()}
    if isinstance(data, list):
        return [good_map(v, fun, opt=opt) for v in data]
    if isinstance(data, tuple):
        return tuple([good_map(v, fun, opt) for v in data])
    return fun(data)


def good_joint(data):
    if isinstance(data, dict):
        for k in sorted(data.keys()):
            yield from good_joint(data[k])
    if isinstance(data, (list, tuple)):
        for v in data:
            yield from good_joint(v)


def good_reordered(data):
    if isinstance(data, tuple):
        return tuple(good_reordered(v) for v in data)
    elif isinstance(data, list) or isinstance(data, dict):
        if isinstance(data, dict):
            return dict((k, good_reordered(v)) for k, v in data.items())
        return [good_reordered(v) for v in data]
    return data


def good_loop(data):
    if isinstance(data, dict):
        ret = {}
        for k, v in data.items():
            ret[k] = good_loop(v)
        return ret
    if isinstance(data, (list, tuple)):
        ret = []
        for i, v in enumerate(data):
            ret.append(good_loop(v))
        return type(data)(ret)
    return data


def bad_no_tuple(data):
    if isinstance(data, dict):
        return {k: bad_no_tuple(v) for k, v in data.items()}
    if isinstance(data, list):
        return [bad_no_tuple(v) for v in data]
    return data


def bad_slice(data):
    if isinstance(data, dict):
        return {k: bad_slice(v) for k, v in data.items()}
    if isinstance(data, list):
        return [bad_slice(v) for v in data[1:]]
    if isinstance(data, tuple):
        return tuple([bad_slice(v) for v in data])
    return data


def bad_items_slice(data):
    if isinstance(data, dict):
        return {k: bad_items_slice(v) for k, v in list(data.items())[:-1]}
    if isinstance(data, list):
        return [bad_items_slice(v) for v in data]
    if isinstance(data, tuple):
        return tuple([bad_items_slice(v) for v in data])
    return data


def bad_zip_literal(data):
    if isinstance(data, dict):
        return {k: bad_zip_literal(v) for k, v in data.items()}
    if isinstance(data, list):
        return [bad_zip_literal(v) for v in data]
    if isinstance(data, tuple):
        return tuple([bad_zip_literal(v) for v, _ in zip(data, (0, 1))])
    return data


def bad_filter(data):
    if isinstance(data, dict):
        return {k: bad_filter(v) for k, v in data.items()}
    if isinstance(data, list):
        return [bad_filter(v) for v in data if v is not None]
    if isinstance(data, tuple):
        return tuple([bad_filter(v) for v in data])
    return data


def bad_break(data):
    if isinstance(data, dict):
        return {k: bad_break(v) for k, v in data.items()}
    if isinstance(data, list):
        ret = []
        for v in data:
            ret.append(bad_break(v))
            break
        return ret
    if isinstance(data, tuple):
        return tuple([bad_break(v) for v in data])
    return data


def bad_forward(data, axis=0):
    if isinstance(data, dict):
        return {k: bad_forward(v) for k, v in data.items()}
    if isinstance(data, list):
        return [bad_forward(v, axis) for v in data]
    if isinstance(data, tuple):
        return tuple([bad_forward(v, axis=axis) for v in data])
    return np.sum(data, axis=axis)


def writer_good(name, ps):
    arr = np.stack(ps).transpose((1, 0, 2)).reshape((-1, 4))
    np.savetxt(name, arr)


def writer_bad_perm(name, ps):
    arr = np.stack(ps).transpose((0, 1, 2)).reshape((-1, 4))
    np.savetxt(name, arr)


def writer_stack_axis1(name, ps):
    arr = np.stack(ps, axis=1)
    arr = np.transpose(arr, [1, 0, 2])
    arr = arr.reshape(-1, 4)
    np.savetxt(name, arr)
