"""positive examples for the C16 ownership and dropped-result rules (never imported)"""


def wrap(p, a=-3.14, b=3.14):
    return (p - a) % (b - a) + a


class Other:
    def meddle(self, vm, name):
        vm.trainable_vars.append(name)
        vm.bnd_dic[name] = None
        del vm.variables[name]
        vm.same_list = []

    def dropped(self, p):
        wrap(p)
        return p

    def kept(self, p):
        p = wrap(p)
        return p
