"""fixture for the O-cache rule: functions named bad_* must be reported, ok_* must not"""
import functools


@functools.lru_cache()
def table(n):
    return [i * i for i in range(n)]


def passthrough(n):
    return table(n)


def bad_direct(n):
    t = table(n)
    t.reverse()
    return t


def bad_alias(n):
    t = table(n)
    u = t
    u[0] = 1
    return u


def bad_holder(n):
    cache = {}
    cache[n] = table(n)
    c = cache[n]
    c.append(0)
    return c


def bad_wrapper(n):
    t = passthrough(n)
    t.sort()
    return t


def bad_aug(n):
    t = table(n)
    t += [1]
    return t


def ok_copy(n):
    t = list(table(n))
    t.reverse()
    return t


def ok_slice(n):
    t = table(n)[::-1]
    t.append(1)
    return t


def ok_rebound(n):
    t = table(n)
    t = [int(i) for i in t]
    t.append(3)
    return t


def ok_read(n):
    t = table(n)
    return sum(t[i] for i in range(n))
