"""Tiny positive/negative examples for the C17 typestate rules (never imported)."""
import contextlib


class Group:
    def __init__(self):
        self.chains_idx = [0, 1, 2]

    def set_used_chains(self, used):
        self.chains_idx = list(used)

    def add_used_chains(self, used):
        for i in used:
            self.chains_idx.append(i)

    def compute(self):
        return len(self.chains_idx)

    @contextlib.contextmanager
    def bad_manager(self, used):
        old = self.chains_idx
        self.set_used_chains(used)
        yield
        self.chains_idx = old

    @contextlib.contextmanager
    def good_manager(self, used):
        old = self.chains_idx
        try:
            self.set_used_chains(used)
            yield
        finally:
            self.chains_idx = old

    def bad_compute(self, parts):
        old = self.chains_idx
        out = []
        for p in parts:
            self.set_used_chains(p)
            out.append(self.compute())
        self.set_used_chains(old)
        return out

    def good_compute(self, parts):
        old = self.chains_idx
        out = []
        try:
            for p in parts:
                self.set_used_chains(p)
                out.append(self.compute())
        finally:
            self.set_used_chains(old)
        return out

    def bad_generator(self):
        old = self.chains_idx
        for i in old:
            self.set_used_chains([i])
            yield i
        self.chains_idx = old

    def good_generator(self):
        old = self.chains_idx
        try:
            for i in old:
                self.set_used_chains([i])
                yield i
        finally:
            self.chains_idx = old

    def bad_alias(self, extra):
        old = self.chains_idx
        try:
            self.add_used_chains(extra)
            return self.compute()
        finally:
            self.chains_idx = old

    def good_delegate(self, used):
        with self.good_manager(used):
            return self.compute()

    def bad_wrong_snapshot(self, parts):
        old = self.all_chains
        try:
            for p in parts:
                self.set_used_chains(p)
        finally:
            self.set_used_chains(old)

    def bad_late_snapshot(self, used):
        self.set_used_chains(used)
        old = self.chains_idx
        try:
            return self.compute()
        finally:
            self.chains_idx = old

    def bad_early_return(self, used, flag):
        old = self.chains_idx
        self.set_used_chains(used)
        if flag:
            return None
        r = len(used)
        self.chains_idx = old
        return r

    def good_except_reraise(self, used):
        old = self.chains_idx
        try:
            self.set_used_chains(used)
            r = self.compute()
        except BaseException:
            self.chains_idx = old
            raise
        self.chains_idx = old
        return r
