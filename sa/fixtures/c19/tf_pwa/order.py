"""C19 (a) fixture: positive / negative examples for the set-order taint analysis.

Never imported or executed; parsed by sa/props/c19.py::_fixture only.
"""


def helper_returns_set(decays):
    return set(d.core for d in decays)


# ------------------------------------------------------------------ positives
def bad_names_from_set(particles):
    names = []
    for p in set(particles):
        names.append(str(p))
    return names


def bad_first_of_set(x):
    return list(set(x))[0]


def bad_unsorted_difference(res, exclude):
    return list(set(res) - set(exclude))


def bad_pop(x):
    s = set(x)
    return s.pop()


def bad_next_iter(x):
    s = frozenset(x)
    return next(iter(s))


def bad_join(x):
    return "_".join({str(i) for i in x})


def bad_init_in_set_order(chain):
    inited = set(chain)
    for d in inited:
        d.init_params()


def bad_via_helper(decays, out):
    for c in helper_returns_set(decays):
        out.append(c)


def bad_dict_filled_in_set_order(x):
    table = {}
    for p in set(x):
        table[p] = 1
    ret = []
    for k in table:
        ret.append(k)
    return ret


def bad_sorted_with_key(x):
    return sorted(set(x), key=len)


class Holder:
    def fill(self, x):
        self.items = set(x)

    def use(self):
        pass


def bad_attr(self, x):
    self.items = set(x)
    out = []
    for i in self.items:
        out.append(i)
    return out


# ------------------------------------------------------------------ negatives
def good_sorted_difference(res, exclude):
    return sorted(list(set(res) - set(exclude)))


def good_membership_only(x, y):
    s = set(x)
    return [i for i in y if i not in s]


def good_set_insertion_loop(res_set, chains):
    used = set()
    for i in set(res_set):
        for j, c in enumerate(chains):
            if i in c.inner:
                used.add(j)
    return sorted(used)


def good_flag_loop(x, probe):
    found = False
    for i in set(x):
        if i == probe:
            found = True
            break
    return found


def good_len_and_min(x):
    s = set(x)
    return len(s), min(s), max(s)


def good_setcomp(x):
    return {str(i) for i in set(x)}


def bad_sequence_equality(x, ref):
    got = list(set(x))
    return got == ref


def good_set_equality(x, ref):
    return set(x) == set(ref)
