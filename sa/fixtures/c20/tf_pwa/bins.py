"""Fixture for sa/props/c20.py - never imported, only parsed.

Each function is a positive or negative example for one analyser primitive; the
expected classification is the table FIXTURE_EXPECT in sa/props/c20.py.
"""
import numpy as np
import tensorflow as tf


class Masks:
    def good_call(self, x, pairs):
        return [np.logical_and(x >= lo, x < hi) for lo, hi in pairs]

    def good_mirror(self, x, pairs):
        return [(lo <= x) & (hi > x) for lo, hi in pairs]

    def good_tf(self, x, pairs):
        return [tf.logical_and(tf.greater_equal(x, lo), tf.less(x, hi)) for lo, hi in pairs]

    def good_negated(self, x, pairs):
        return [~(x < lo) & ~(x >= hi) for lo, hi in pairs]

    def good_chained(self, x, pairs):
        return [[lo <= v < hi for v in x] for lo, hi in pairs]

    def good_upper_closed(self, x, pairs):
        return [(x > lo) & (x <= hi) for lo, hi in pairs]

    def bad_closed_closed(self, x, pairs):
        return [np.logical_and(x >= lo, x <= hi) for lo, hi in pairs]

    def bad_open_open(self, x, pairs):
        return [(x > lo) & (x < hi) for lo, hi in pairs]

    def bad_negated(self, x, pairs):
        return [~(x < lo) & ~(x > hi) for lo, hi in pairs]

    def bad_swapped(self, x, pairs):
        return [(x >= hi) & (x < lo) for lo, hi in pairs]


class Splitters:
    def good_chain(self, data, n, base):
        left = base[0]
        out = []
        for j in range(1, n):
            right = np.percentile(data, j / n * 100)
            out.append((left, right))
            left = right
        out.append((left, base[1]))
        return out

    def bad_gap(self, data, n, base):
        left = base[0]
        out = []
        for j in range(1, n):
            right = np.percentile(data, j / n * 100)
            out.append((left, right))
            left = right + 1e-6
        out.append((left, base[1]))
        return out

    def bad_no_chain(self, data, n, base):
        left = base[0]
        out = []
        for j in range(1, n):
            right = np.percentile(data, j / n * 100)
            out.append((left, right))
        out.append((left, base[1]))
        return out

    def bad_outer(self, data, n, base):
        left = base[0]
        out = []
        for j in range(1, n):
            right = np.percentile(data, j / n * 100)
            out.append((left, right))
            left = right
        out.append((left, np.max(data)))
        return out


class Bases:
    def good(self, data):
        return (np.min(data), np.max(data) + 1e-6)

    def bad_unpadded(self, data):
        lo = np.min(data) - 1e-6
        hi = np.max(data)
        return (lo, hi)
