#!/usr/bin/env python3
"""python3-vt sa/check.py <Cxx> [--tier quick|thorough] [--repo PATH]

Static checks of /repo's tf_pwa sources.  Exit 0 = held, 1 = VIOLATION,
2 = ANALYSIS-ERROR (vanished anchor / unmodelled construct / internal error).
"""
import argparse
import importlib
import os
import sys
import traceback

HERE = os.path.dirname(os.path.abspath(__file__))
sys.path.insert(0, os.path.dirname(HERE))

from sa.model import AnalysisError, Repo  # noqa: E402
from sa.report import Check  # noqa: E402

LEVELS = {
    "C12": "proof",
    "C15": "proof",
    "C09": "proof",
    "C11": "proof",
}

MIN_COUNTS = {"modules": 85, "functions": 1500, "classes": 170}  # 85 tracked modules (+ generated version.py)


def main(argv=None):
    ap = argparse.ArgumentParser()
    ap.add_argument("pid")
    ap.add_argument("--tier", default=os.environ.get("VERIF_TIER", "quick"))
    ap.add_argument("--repo", default=os.environ.get("VERIF_REPO", "/repo"))
    ap.add_argument("--quiet", action="store_true")
    ap.add_argument("--no-evidence", action="store_true", help="self-test runs: do not touch /verif/evidence")
    a = ap.parse_args(argv)
    pid = a.pid.upper()
    tier = a.tier if a.tier in ("quick", "thorough") else "quick"
    try:
        mod = importlib.import_module("sa.props.%s" % pid.lower())
    except ImportError as e:
        print("ANALYSIS-ERROR no check for %s: %s" % (pid, e))
        return 2
    chk = Check(pid, tier, getattr(mod, "LEVEL", LEVELS.get(pid, "other")), quiet=a.quiet)
    chk.write_evidence = not a.no_evidence
    try:
        repo = Repo(a.repo)
        cnt = repo.counts()
        chk.out(
            "analysed %(modules)d modules, %(functions)d functions, %(classes)d classes, %(lines)d lines" % cnt
            + " under %s" % repo.root
        )
        for k, v in MIN_COUNTS.items():
            if cnt[k] < v:
                raise AnalysisError("only %d %s parsed (< %d): the build is not covered" % (cnt[k], k, v))
        chk.extra["parsed"] = cnt
        try:
            mod.run(repo, chk, tier)
        except AnalysisError as e:
            from sa.report import load_known

            known = load_known(pid)
            if not [v for v in chk.violations if v["key"] not in known]:
                raise  # only known findings (or nothing) so far: the modelling failure is not explained by a violation
            # a violation found so far explains why a later kernel can no longer be modelled
            chk.info("analysis stopped early after the violation(s) above: %s" % e)
            chk.min_counts.clear()
        from sa.report import load_known as _lk

        _known = _lk(pid)
        if tier == "thorough" and not a.no_evidence and not [v for v in chk.violations if v["key"] not in _known]:
            # second half of the thorough tier: the rules of this property must still fire on every
            # seeded one-site break and stay silent on every behaviour-preserving twin
            from sa import selftest

            res = selftest.run_all([pid], a.repo, min(16, os.cpu_count() or 4))
            bad = [(n, m) for _, n, ok, m in res if not ok]
            chk.extra["selftest"] = {
                "cases": len(res),
                "unexpected": len(bad),
                "names": [n for _, n, _, _ in res][:80],
            }
            chk.out("  thorough: self-test of %d seeded edits (mutants must fire, twins must stay silent): %d unexpected" % (len(res), len(bad)))
            if bad:
                for n, m in bad[:5]:
                    chk.out("    selftest FAIL %s: %s" % (n, m[:300]))
                raise AnalysisError("self-test failed for %d case(s): the checker is broken for %s" % (len(bad), bad[0][0]))
        return chk.finish()
    except AnalysisError as e:
        print("ANALYSIS-ERROR property=%s %s" % (pid, e))
        return 2
    except Exception:
        traceback.print_exc()
        print("ANALYSIS-ERROR property=%s internal error (see traceback)" % pid)
        return 2


if __name__ == "__main__":
    sys.exit(main())
