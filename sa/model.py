"""E1 - program model of /repo's tf_pwa package, built from the AST only.

Nothing in here imports or executes tf_pwa.  The model provides
  * every non-test module parsed (Mod), every function (Fn, incl. nested and
    methods) and class (Cls) with bases resolved through imports and a C3 MRO,
  * name resolution helpers (imports, class lookup, method lookup through MRO,
    "unique method name" lookup over the whole program),
  * signature binding of a call's arguments to the callee's parameter names.
"""
import ast
import os
import sys


class _SequentialiseParallelAssign(ast.NodeTransformer):
    """`t1, t2 = v1, v2`  ->  `t1 = v1; t2 = v2`  when that is the same program: no later value reads an earlier target
    (a swap stays a parallel assignment).  All analyses then see the statement forms they know."""

    @staticmethod
    def _reads(expr):
        return {norm_text_raw(x) for x in ast.walk(expr) if isinstance(x, (ast.Name, ast.Attribute, ast.Subscript))}

    def visit_Assign(self, node):
        self.generic_visit(node)
        if len(node.targets) != 1:
            return node
        t, v = node.targets[0], node.value
        if not (isinstance(t, (ast.Tuple, ast.List)) and isinstance(v, (ast.Tuple, ast.List)) and len(t.elts) == len(v.elts) and len(t.elts) >= 2):
            return node
        if any(isinstance(e, ast.Starred) for e in list(t.elts) + list(v.elts)):
            return node
        if any(isinstance(e, (ast.Tuple, ast.List)) for e in t.elts):
            return node
        for i in range(len(t.elts)):
            stored = {norm_text_raw(x) for x in ast.walk(t.elts[i]) if isinstance(x, (ast.Name, ast.Attribute, ast.Subscript)) and isinstance(getattr(x, "ctx", None), ast.Store)}
            stored_names = {x.id for x in ast.walk(t.elts[i]) if isinstance(x, ast.Name)}
            for j in range(i + 1, len(v.elts)):
                reads = self._reads(v.elts[j])
                read_names = {x.id for x in ast.walk(v.elts[j]) if isinstance(x, ast.Name)}
                if stored & reads or (isinstance(t.elts[i], ast.Name) and stored_names & read_names):
                    return node
                if not isinstance(t.elts[i], ast.Name) and any(isinstance(x, ast.Call) for x in ast.walk(v.elts[j])):
                    return node  # a call could observe the stored attribute / element
        out = []
        for te, ve in zip(t.elts, v.elts):
            a = ast.Assign(targets=[te], value=ve)
            ast.copy_location(a, node)
            out.append(a)
        return out


def norm_text_raw(node):
    try:
        return ast.unparse(node)
    except Exception:
        return ast.dump(node)


class AnalysisError(Exception):
    """The analysis cannot decide (vanished anchor, unmodelled construct...)."""


EXCLUDE_DIRS = {"tests", "__pycache__"}


def is_test_file(rel):
    parts = rel.split("/")
    if any(p in EXCLUDE_DIRS for p in parts[:-1]):
        return True
    return parts[-1].startswith("test_")


class Fn:
    __slots__ = (
        "name", "qual", "node", "mod", "cls", "parent", "decorators",
        "params", "is_generator", "key",
    )

    def __init__(self, name, qual, node, mod, cls, parent):
        self.name = name
        self.qual = qual  # e.g. "DecayGroup.temp_used_res", "create_config.set_"
        self.node = node
        self.mod = mod
        self.cls = cls
        self.parent = parent  # enclosing Fn for nested functions
        self.decorators = [dec_name(d) for d in node.decorator_list]
        a = node.args
        self.params = [x.arg for x in a.posonlyargs + a.args]
        self.is_generator = _is_generator(node)
        self.key = mod.rel + "::" + qual

    @property
    def lineno(self):
        return self.node.lineno

    def __repr__(self):
        return "<Fn %s>" % self.key

    def is_contextmanager(self):
        return any(d.split(".")[-1] == "contextmanager" for d in self.decorators)

    def is_static(self):
        return "staticmethod" in self.decorators

    def is_classmethod(self):
        return "classmethod" in self.decorators

    def is_property(self):
        return "property" in self.decorators

    def all_param_names(self):
        a = self.node.args
        names = [x.arg for x in a.posonlyargs + a.args + a.kwonlyargs]
        return names

    def defaults(self):
        """param name -> default AST node"""
        a = self.node.args
        pos = a.posonlyargs + a.args
        out = {}
        for p, d in zip(pos[len(pos) - len(a.defaults):], a.defaults):
            out[p.arg] = d
        for p, d in zip(a.kwonlyargs, a.kw_defaults):
            if d is not None:
                out[p.arg] = d
        return out


def _is_generator(fnode):
    for n in walk_local(fnode):
        if isinstance(n, (ast.Yield, ast.YieldFrom)):
            return True
    return False


def walk_local(fnode):
    """ast.walk over a function body without entering nested defs/lambdas/classes."""
    stack = list(fnode.body) if hasattr(fnode, "body") and isinstance(fnode.body, list) else [fnode]
    while stack:
        n = stack.pop()
        yield n
        if isinstance(n, _SCOPES):
            continue
        for c in ast.iter_child_nodes(n):
            stack.append(c)


_SCOPES = (ast.FunctionDef, ast.AsyncFunctionDef, ast.Lambda, ast.ClassDef)


def walk_stmt(node):
    """walk an arbitrary node, not entering nested function/class definitions
    (a def/lambda/class nested in `node` is yielded but not descended into;
    when `node` itself is one, its body is walked)."""
    stack = [node]
    first = True
    while stack:
        n = stack.pop()
        yield n
        if isinstance(n, _SCOPES) and not first:
            continue
        first = False
        for c in ast.iter_child_nodes(n):
            stack.append(c)


def dec_name(d):
    if isinstance(d, ast.Call):
        return dec_name(d.func)
    return dotted(d) or "?"


def dotted(n):
    """a.b.c -> 'a.b.c' ; None when not a pure dotted name"""
    parts = []
    while isinstance(n, ast.Attribute):
        parts.append(n.attr)
        n = n.value
    if isinstance(n, ast.Name):
        parts.append(n.id)
        return ".".join(reversed(parts))
    return None


class Cls:
    def __init__(self, name, node, mod):
        self.name = name
        self.node = node
        self.mod = mod
        self.methods = {}
        self.base_exprs = [dotted(b) or "?" for b in node.bases]
        self.bases = []  # resolved Cls
        self.mro = None
        self.subclasses = []
        self.decorators = node.decorator_list
        self.class_attrs = {}
        self.key = mod.rel + "::" + name

    def __repr__(self):
        return "<Cls %s>" % self.key

    def lookup(self, mname):
        for c in self.mro:
            if mname in c.methods:
                return c.methods[mname]
        return None

    def all_subclasses(self):
        out, stack = [], list(self.subclasses)
        seen = set()
        while stack:
            c = stack.pop()
            if id(c) in seen:
                continue
            seen.add(id(c))
            out.append(c)
            stack.extend(c.subclasses)
        return out

    def is_subclass_of(self, other):
        return other in self.mro


class Mod:
    def __init__(self, rel, modname, tree, src):
        self.rel = rel
        self.modname = modname
        self.tree = tree
        self.src = src
        self.funcs = {}  # qual -> Fn
        self.classes = {}
        self.imports = {}  # local name -> (module, attr or None)
        self.all_classes = []
        self.toplevel_assign = {}  # name -> value node (last one)


class _Normalise(ast.NodeTransformer):
    """spelling-level normalisation applied to every module before any analysis (positions are kept):
       setattr(x, "name", v)  as a statement      ->  x.name = v
       t = <call>; with t: ...  (t bound once, just before, used only there)  ->  with <call>: ..."""

    def visit_Expr(self, node):
        self.generic_visit(node)
        c = node.value
        if isinstance(c, ast.Call) and isinstance(c.func, ast.Name) and c.func.id == "setattr" and len(c.args) == 3 and not c.keywords and isinstance(c.args[1], ast.Constant) and isinstance(c.args[1].value, str) and c.args[1].value.isidentifier():
            tgt = ast.Attribute(value=c.args[0], attr=c.args[1].value, ctx=ast.Store())
            new = ast.Assign(targets=[tgt], value=c.args[2], type_comment=None)
            ast.copy_location(tgt, c)
            return ast.fix_missing_locations(ast.copy_location(new, node))
        return node

    def _block(self, body):
        for i in range(1, len(body)):
            w, prev = body[i], body[i - 1]
            if isinstance(w, ast.With) and len(w.items) == 1 and isinstance(w.items[0].context_expr, ast.Name) and isinstance(prev, ast.Assign) and len(prev.targets) == 1 and isinstance(prev.targets[0], ast.Name) and prev.targets[0].id == w.items[0].context_expr.id and isinstance(prev.value, ast.Call):
                nm = prev.targets[0].id
                uses = sum(1 for st in body for x in ast.walk(st) if isinstance(x, ast.Name) and x.id == nm)
                if uses == 2:   # the binding and the with item
                    w.items[0].context_expr = prev.value
                    body[i - 1] = ast.copy_location(ast.Pass(), prev)
                elif w.items[0].optional_vars is None and "GradientTape" in ast.unparse(prev.value.func):
                    # tape = tf.GradientTape(); with tape: ... tape.gradient(..)  ==  with tf.GradientTape() as tape: ...
                    # (a GradientTape enters as itself)
                    w.items[0].context_expr = prev.value
                    w.items[0].optional_vars = ast.copy_location(ast.Name(id=nm, ctx=ast.Store()), prev.targets[0])
                    body[i - 1] = ast.copy_location(ast.Pass(), prev)
        return body

    def generic_visit(self, node):
        super().generic_visit(node)
        for fld in ("body", "orelse", "finalbody"):
            b = getattr(node, fld, None)
            if isinstance(b, list) and b and all(isinstance(x, ast.stmt) for x in b):
                setattr(node, fld, self._block(b))
        return node


def _normalise(tree):
    try:
        return ast.fix_missing_locations(_Normalise().visit(tree))
    except Exception:   # never let the normaliser stand between the source and the analysis
        return tree


def _wrap_passthrough_managers(tree, managers):
    for n in ast.walk(tree):
        if not isinstance(n, ast.FunctionDef) or n.decorator_list:
            continue
        body = [st for st in n.body if not (isinstance(st, ast.Expr) and isinstance(st.value, ast.Constant) and isinstance(st.value.value, str))]
        if len(body) != 1 or not isinstance(body[0], ast.Return) or not isinstance(body[0].value, ast.Call):
            continue
        c = body[0].value
        last = c.func.attr if isinstance(c.func, ast.Attribute) else (c.func.id if isinstance(c.func, ast.Name) else None)
        if last not in managers or n.name not in managers:
            continue   # only a wrapper that carries a manager's own name (mask_params -> vm.mask_params)
        ret = body[0]
        w = ast.With(items=[ast.withitem(context_expr=c, optional_vars=ast.Name(id="_cm_value", ctx=ast.Store()))], body=[ast.Expr(value=ast.Yield(value=ast.Name(id="_cm_value", ctx=ast.Load())))])
        ast.copy_location(w, ret)
        n.body = [st for st in n.body if st is not ret] + [w]
        n.decorator_list = [ast.copy_location(ast.Attribute(value=ast.Name(id="contextlib", ctx=ast.Load()), attr="contextmanager", ctx=ast.Load()), n)]
        ast.fix_missing_locations(n)


class Repo:
    def __init__(self, root=None, package="tf_pwa"):
        self.root = root or os.environ.get("VERIF_REPO", "/repo")
        self.package = package
        self.mods = {}
        self.by_modname = {}
        self.nlines = 0
        self._load()
        self._resolve_classes()
        self.method_index = {}
        for m in self.mods.values():
            for c in m.classes.values():
                for k, f in c.methods.items():
                    self.method_index.setdefault(k, []).append(f)
        self.func_by_name = {}
        for m in self.mods.values():
            for f in m.funcs.values():
                self.func_by_name.setdefault(f.name, []).append(f)

    # ---------------------------------------------------------------- loading
    def _load(self):
        pkg_root = os.path.join(self.root, self.package)
        if not os.path.isdir(pkg_root):
            raise AnalysisError("package dir not found: %s" % pkg_root)
        parsed = []
        for dp, dns, fns in os.walk(pkg_root):
            dns[:] = sorted(d for d in dns if d not in EXCLUDE_DIRS)
            for fn in sorted(fns):
                if not fn.endswith(".py"):
                    continue
                full = os.path.join(dp, fn)
                rel = os.path.relpath(full, self.root)
                if is_test_file(rel):
                    continue
                with open(full, encoding="utf-8") as f:
                    src = f.read()
                try:
                    tree = _normalise(ast.parse(src, filename=rel))
                except SyntaxError as e:
                    raise AnalysisError("cannot parse %s: %s" % (rel, e))
                tree = _SequentialiseParallelAssign().visit(tree)
                ast.fix_missing_locations(tree)
                parsed.append((rel, src, tree))
        # second pass: a plain function that only hands back a context manager of the package (`return inner.m(..)`
        # with m a @contextmanager somewhere in the package) is the same manager as `with inner.m(..) as v: yield v`
        managers = set()
        for _, _, tree in parsed:
            for n in ast.walk(tree):
                if isinstance(n, ast.FunctionDef) and any(ast.unparse(d).split(".")[-1] == "contextmanager" for d in n.decorator_list):
                    managers.add(n.name)
        for rel, src, tree in parsed:
            _wrap_passthrough_managers(tree, managers)
            modname = rel[:-3].replace("/", ".")
            if modname.endswith(".__init__"):
                modname = modname[: -len(".__init__")]
            m = Mod(rel, modname, tree, src)
            self.nlines += src.count("\n")
            self.mods[rel] = m
            self.by_modname[modname] = m
            self._index_module(m)

    def _index_module(self, m):
        is_pkg = m.rel.endswith("__init__.py")

        def abs_module(level, module):
            if level == 0:
                return module
            base = m.modname.split(".")
            if not is_pkg:
                base = base[:-1]
            if level > 1:
                base = base[: len(base) - (level - 1)]
            return ".".join(base + ([module] if module else []))

        for n in ast.walk(m.tree):
            if isinstance(n, ast.Import):
                for a in n.names:
                    m.imports.setdefault(a.asname or a.name.split(".")[0], (a.name if a.asname else a.name.split(".")[0], None))
            elif isinstance(n, ast.ImportFrom):
                mod = abs_module(n.level, n.module)
                for a in n.names:
                    m.imports.setdefault(a.asname or a.name, (mod, a.name))
        for st in m.tree.body:
            if isinstance(st, ast.Assign) and len(st.targets) == 1 and isinstance(st.targets[0], ast.Name):
                m.toplevel_assign[st.targets[0].id] = st.value

        def visit(body, prefix, cls, parent):
            for st in body:
                if isinstance(st, (ast.FunctionDef, ast.AsyncFunctionDef)):
                    qual = prefix + st.name
                    f = Fn(st.name, qual, st, m, cls, parent)
                    # keep the *last* definition under the plain key, earlier ones suffixed
                    if qual in m.funcs:
                        k = 2
                        while "%s#%d" % (qual, k) in m.funcs:
                            k += 1
                        old = m.funcs[qual]
                        m.funcs["%s#%d" % (qual, k)] = old
                        old.key = m.rel + "::" + "%s#%d" % (qual, k)
                    m.funcs[qual] = f
                    if cls is not None and parent is None:
                        cls.methods[st.name] = f
                    visit_nested(st.body, qual + ".", cls, f)
                elif isinstance(st, ast.ClassDef):
                    c = Cls(st.name, st, m)
                    m.all_classes.append(c)
                    if prefix == "":
                        m.classes[st.name] = c
                    else:
                        m.classes.setdefault(prefix + st.name, c)
                    for s2 in st.body:
                        if isinstance(s2, ast.Assign) and len(s2.targets) == 1 and isinstance(s2.targets[0], ast.Name):
                            c.class_attrs[s2.targets[0].id] = s2.value
                    visit(st.body, prefix + st.name + ".", c, None)
                elif isinstance(st, (ast.If, ast.Try, ast.With, ast.For, ast.While)):
                    for fld in ("body", "orelse", "finalbody"):
                        visit(getattr(st, fld, []) or [], prefix, cls, parent)
                    for h in getattr(st, "handlers", []) or []:
                        visit(h.body, prefix, cls, parent)

        def visit_nested(body, prefix, cls, parent):
            # nested functions inside a function body (any depth of compound statements)
            for st in body:
                if isinstance(st, (ast.FunctionDef, ast.AsyncFunctionDef)):
                    qual = prefix + st.name
                    f = Fn(st.name, qual, st, m, cls, parent)
                    if qual in m.funcs:
                        k = 2
                        while "%s#%d" % (qual, k) in m.funcs:
                            k += 1
                        qual2 = "%s#%d" % (qual, k)
                        f.qual = qual2
                        f.key = m.rel + "::" + qual2
                        m.funcs[qual2] = f
                    else:
                        m.funcs[qual] = f
                    visit_nested(st.body, qual + ".", cls, f)
                elif isinstance(st, ast.ClassDef):
                    c = Cls(st.name, st, m)
                    m.all_classes.append(c)
                    m.classes.setdefault(prefix + st.name, c)
                    visit(st.body, prefix + st.name + ".", c, None)
                else:
                    for fld in ("body", "orelse", "finalbody"):
                        sub = getattr(st, fld, None)
                        if isinstance(sub, list):
                            visit_nested(sub, prefix, cls, parent)
                    for h in getattr(st, "handlers", []) or []:
                        visit_nested(h.body, prefix, cls, parent)

        visit(m.tree.body, "", None, None)

    # ------------------------------------------------------------ class table
    def resolve_name(self, mod, name):
        """resolve a (dotted) name used in `mod` to a Cls, Fn, Mod or None"""
        parts = name.split(".")
        head = parts[0]
        obj = None
        if head in mod.classes:
            obj = mod.classes[head]
        elif head in mod.funcs:
            obj = mod.funcs[head]
        elif head in mod.imports:
            tmod, attr = mod.imports[head]
            obj = self._import_target(tmod, attr)
        elif head in mod.toplevel_assign:
            v = mod.toplevel_assign[head]
            d = dotted(v)
            if d and d != name:
                obj = self.resolve_name(mod, d)
        for p in parts[1:]:
            if obj is None:
                return None
            if isinstance(obj, Mod):
                if p in obj.classes:
                    obj = obj.classes[p]
                elif p in obj.funcs:
                    obj = obj.funcs[p]
                elif p in obj.imports:
                    obj = self._import_target(*obj.imports[p])
                else:
                    sub = self.by_modname.get(obj.modname + "." + p)
                    obj = sub
            elif isinstance(obj, Cls):
                obj = obj.lookup(p) if obj.mro else obj.methods.get(p)
            else:
                return None
        return obj

    def _import_target(self, tmod, attr, depth=0):
        if depth > 6:
            return None
        if attr is None:
            return self.by_modname.get(tmod)
        m = self.by_modname.get(tmod)
        if m is None:
            return None
        if attr in m.classes:
            return m.classes[attr]
        if attr in m.funcs:
            return m.funcs[attr]
        if attr in m.imports:
            return self._import_target(*m.imports[attr], depth=depth + 1)
        sub = self.by_modname.get(tmod + "." + attr)
        if sub is not None:
            return sub
        if attr in m.toplevel_assign:
            d = dotted(m.toplevel_assign[attr])
            if d:
                return self.resolve_name(m, d)
        return None

    def _resolve_classes(self):
        allc = [c for m in self.mods.values() for c in m.all_classes]
        for c in allc:
            for b in c.base_exprs:
                r = self.resolve_name(c.mod, b)
                if isinstance(r, Cls):
                    c.bases.append(r)
                    r.subclasses.append(c)

        def mro(c, stack=()):
            if c.mro is not None:
                return c.mro
            if c in stack:
                return [c]
            seqs = [list(mro(b, stack + (c,))) for b in c.bases] + [list(c.bases)]
            res = [c]
            while True:
                seqs = [s for s in seqs if s]
                if not seqs:
                    break
                for s in seqs:
                    cand = s[0]
                    if not any(cand in t[1:] for t in seqs):
                        break
                else:
                    cand = seqs[0][0]  # inconsistent; fall back
                res.append(cand)
                for s in seqs:
                    if s and s[0] is cand:
                        del s[0]
            c.mro = res
            return res

        for c in allc:
            mro(c)
        self.all_classes = allc

    # ---------------------------------------------------------------- lookups
    def fn(self, key):
        """key: 'tf_pwa/x.py::Qual.name' ; AnalysisError when it vanished"""
        rel, qual = key.split("::")
        m = self.mods.get(rel)
        if m is None or qual not in m.funcs:
            raise AnalysisError("anchor vanished: function %s" % key)
        return m.funcs[qual]

    def fn_opt(self, key):
        rel, qual = key.split("::")
        m = self.mods.get(rel)
        if m is None:
            return None
        return m.funcs.get(qual)

    def cls(self, key):
        rel, name = key.split("::")
        m = self.mods.get(rel)
        if m is None or name not in m.classes:
            raise AnalysisError("anchor vanished: class %s" % key)
        return m.classes[name]

    def mod(self, rel):
        if rel not in self.mods:
            raise AnalysisError("anchor vanished: module %s" % rel)
        return self.mods[rel]

    def all_fns(self):
        for m in self.mods.values():
            for f in m.funcs.values():
                yield f

    def counts(self):
        return {
            "modules": len(self.mods),
            "functions": sum(len(m.funcs) for m in self.mods.values()),
            "classes": sum(len(m.classes) for m in self.mods.values()),
            "lines": self.nlines,
        }

    def src_segment(self, mod, node):
        try:
            return ast.get_source_segment(mod.src, node) or ""
        except Exception:
            return ""


# ------------------------------------------------------------------ utilities
def norm_text(node):
    """normalised statement/expression text, independent of layout and line numbers"""
    try:
        return ast.unparse(node)
    except Exception:
        return ast.dump(node)


def bind_call(call, fn, is_method_call=None):
    """Bind a Call's arguments to callee parameter names.

    Returns (bound: {param: expr-node}, extra_pos, has_star, has_kwstar).
    When the callee is a method (has self/cls first param and is called on an
    instance) the first parameter is skipped.
    """
    a = fn.node.args
    pos = [x.arg for x in a.posonlyargs + a.args]
    kwonly = [x.arg for x in a.kwonlyargs]
    if is_method_call is None:
        is_method_call = fn.cls is not None and fn.parent is None and not fn.is_static()
    if is_method_call and pos:
        pos = pos[1:]
    bound = {}
    extra = []
    has_star = False
    i = 0
    for arg in call.args:
        if isinstance(arg, ast.Starred):
            has_star = True
            break
        if i < len(pos):
            bound[pos[i]] = arg
        else:
            extra.append(arg)
        i += 1
    has_kwstar = False
    for kw in call.keywords:
        if kw.arg is None:
            has_kwstar = True
            continue
        bound[kw.arg] = kw.value
    return bound, extra, has_star, has_kwstar


def const_value(node, default=None):
    if isinstance(node, ast.Constant):
        return node.value
    if isinstance(node, ast.UnaryOp) and isinstance(node.op, ast.USub) and isinstance(node.operand, ast.Constant):
        return -node.operand.value
    return default


def names_in(node):
    return {n.id for n in ast.walk(node) if isinstance(n, ast.Name)}


def parent_map(root):
    pm = {}
    for n in ast.walk(root):
        for c in ast.iter_child_nodes(n):
            pm[c] = n
    return pm
