"""Call resolution by class-hierarchy analysis + a small receiver table.

resolve_call(repo, fn, call) -> (list of candidate Fn, how)
  how in {"local", "module", "self", "super", "class", "typed", "unique", "byname", "unresolved", "external"}

Receivers that are not `self` are typed by (i) single-assignment locals built
from a constructor call, (ii) the receiver table below (attribute / variable
naming conventions of this code base, confirmed by reading), (iii) uniqueness
of the method name in the whole program.  Generic container method names are
never resolved by name alone.
"""
import ast

from .model import Cls, Fn, Mod, dotted, walk_local

# attribute / variable name (last component of the receiver expression) -> class key
RECEIVER_TABLE = {
    "vm": "tf_pwa/variable.py::VarsManager",
    "decay_group": "tf_pwa/amp/core.py::DecayGroup",
    "dg": "tf_pwa/amp/core.py::DecayGroup",
    "dec": "tf_pwa/amp/core.py::DecayGroup",
    "amp": "tf_pwa/amp/amp.py::BaseAmplitudeModel",
    "Amp": "tf_pwa/amp/amp.py::BaseAmplitudeModel",
    "amp_tmp": "tf_pwa/amp/amp.py::BaseAmplitudeModel",
    "model": "tf_pwa/model/model.py::Model",
    "fcn": "tf_pwa/model/model.py::FCN",
    "gauss_constr": "tf_pwa/model/model.py::GaussianConstr",
}

GENERIC_NAMES = {
    "get", "set", "append", "update", "items", "keys", "values", "copy", "pop", "add",
    "remove", "extend", "index", "format", "join", "split", "sort", "insert", "count",
    "read", "write", "close", "save", "load", "plot", "clear", "numpy", "tolist", "astype",
    "reshape", "sum", "mean", "eval", "call", "__call__", "replace", "strip", "startswith",
    "endswith", "setdefault", "init_params", "get_params", "set_params", "fit", "reverse",
}


class Resolver:
    def __init__(self, repo):
        self.repo = repo
        self._local_types = {}
        self._tuple_returns = {}
        self._hier_cache = {}

    # ------------------------------------------------------- helper lookups
    def _table_cls(self, name):
        key = RECEIVER_TABLE.get(name)
        if key is None:
            return None
        rel, cname = key.split("::")
        m = self.repo.mods.get(rel)
        if m is None:
            return None
        return m.classes.get(cname)

    def local_types(self, fn):
        """single-assignment locals built by `X(...)` with X a class of the program"""
        if fn in self._local_types:
            return self._local_types[fn]
        assigned = {}
        for n in walk_local(fn.node):
            if isinstance(n, ast.Assign) and len(n.targets) == 1 and isinstance(n.targets[0], ast.Name):
                assigned.setdefault(n.targets[0].id, []).append(n.value)
            elif isinstance(n, (ast.For, ast.comprehension)):
                for t in ast.walk(n.target):
                    if isinstance(t, ast.Name):
                        assigned.setdefault(t.id, []).append(None)
            elif isinstance(n, ast.AugAssign) and isinstance(n.target, ast.Name):
                assigned.setdefault(n.target.id, []).append(None)
        out = {}
        for k, vals in assigned.items():
            if len(vals) != 1 or vals[0] is None:
                continue
            v = vals[0]
            if isinstance(v, ast.Call):
                d = dotted(v.func)
                if d:
                    r = self.repo.resolve_name(fn.mod, d)
                    if isinstance(r, Cls):
                        out[k] = r
            elif isinstance(v, ast.Attribute):
                # local alias of a typed receiver: group = self.decay_group
                c = self._table_cls(v.attr)
                if c is not None:
                    out[k] = c
            elif isinstance(v, ast.Name) and v.id == "self" and fn.cls is not None:
                out[k] = fn.cls
        self._local_types[fn] = out
        return out

    def receiver_class(self, fn, expr):
        """class of a receiver expression, or None"""
        if isinstance(expr, ast.Name):
            if expr.id in ("self", "cls") and fn.cls is not None:
                return fn.cls
            # enclosing method's self for nested functions
            lt = self.local_types(fn)
            if expr.id in lt:
                return lt[expr.id]
            p = fn.parent
            while p is not None:
                lt = self.local_types(p)
                if expr.id in lt:
                    return lt[expr.id]
                p = p.parent
            c = self._table_cls(expr.id)
            if c is not None:
                return c
            r = self.repo.resolve_name(fn.mod, expr.id)
            if isinstance(r, Cls):
                return ("class", r)
            return None
        if isinstance(expr, ast.Attribute):
            c = self._table_cls(expr.attr)
            if c is not None:
                return c
            return None
        if isinstance(expr, ast.Call):
            d = dotted(expr.func)
            if d:
                r = self.repo.resolve_name(fn.mod, d)
                if isinstance(r, Cls):
                    return r
            return None
        return None

    def _hierarchy_roots(self, fns):
        roots = set()
        for f in fns:
            c = f.cls
            if c is None:
                roots.add(None)
                continue
            top = c
            for k in c.mro:
                if f.name in k.methods:
                    top = k
            roots.add(top)
        return roots

    def tuple_return(self, f):
        """for `def f(): ...; return a, b, c` with nested defs a,b,c -> [Fn,...]"""
        if f in self._tuple_returns:
            return self._tuple_returns[f]
        out = None
        rets = [n for n in walk_local(f.node) if isinstance(n, ast.Return)]
        if len(rets) == 1 and isinstance(rets[0].value, ast.Tuple):
            elts = rets[0].value.elts
            if all(isinstance(e, ast.Name) for e in elts):
                cand = [f.mod.funcs.get(f.qual + "." + e.id) for e in elts]
                if all(c is not None for c in cand):
                    out = cand
        self._tuple_returns[f] = out
        return out

    def resolve_toplevel_name(self, mod, name, depth=0):
        """module-level name -> Fn / Cls / Mod, looking through `a, b = f()` unpacking"""
        r = self.repo.resolve_name(mod, name)
        if r is not None:
            return r
        if depth > 4:
            return None
        # tuple unpacking from a factory
        for st in mod.tree.body:
            if isinstance(st, ast.Assign) and len(st.targets) == 1 and isinstance(st.targets[0], ast.Tuple):
                names = [t.id if isinstance(t, ast.Name) else None for t in st.targets[0].elts]
                if name in names and isinstance(st.value, ast.Call):
                    d = dotted(st.value.func)
                    f = self.repo.resolve_name(mod, d) if d else None
                    if isinstance(f, Fn):
                        tr = self.tuple_return(f)
                        if tr and len(tr) == len(names):
                            return tr[names.index(name)]
        if name in mod.imports:
            tmod, attr = mod.imports[name]
            m2 = self.repo.by_modname.get(tmod)
            if m2 is not None and attr:
                return self.resolve_toplevel_name(m2, attr, depth + 1)
        # lambda alias:  using_amplitude = lambda var: temp_config("amp", var)
        return None

    # ------------------------------------------------------------ main entry
    def resolve_call(self, fn, call):
        func = call.func
        repo = self.repo
        if isinstance(func, ast.Name):
            name = func.id
            # nested function of an enclosing function
            p = fn
            while p is not None:
                q = p.mod.funcs.get(p.qual + "." + name)
                if q is not None:
                    return [q], "local"
                p = p.parent
            r = self.resolve_toplevel_name(fn.mod, name)
            if isinstance(r, Fn):
                return [r], "module"
            if isinstance(r, Cls):
                init = r.lookup("__init__")
                return ([init] if init else []), "class"
            return [], "external"
        if isinstance(func, ast.Attribute):
            mname = func.attr
            recv = func.value
            # super().m()
            if (
                isinstance(recv, ast.Call)
                and isinstance(recv.func, ast.Name)
                and recv.func.id == "super"
                and fn.cls is not None
            ):
                owner = fn.cls
                if fn.parent is not None:
                    pass
                mro = owner.mro
                for c in mro[1:]:
                    if mname in c.methods:
                        return [c.methods[mname]], "super"
                return [], "external"
            d = dotted(recv)
            if d is not None and not (isinstance(recv, ast.Name) and recv.id in ("self", "cls")):
                r = self.resolve_toplevel_name(fn.mod, d.split(".")[0])
                if r is not None and not self._shadowed(fn, d.split(".")[0]):
                    r = repo.resolve_name(fn.mod, d + "." + mname)
                    if isinstance(r, Fn):
                        return [r], "module"
                    if isinstance(r, Cls):
                        init = r.lookup("__init__")
                        return ([init] if init else []), "class"
                    r0 = repo.resolve_name(fn.mod, d)
                    if isinstance(r0, (Mod,)):
                        return [], "external"
                    if r0 is None and d.split(".")[0] in fn.mod.imports:
                        return [], "external"  # tf.xxx, np.xxx ...
            rc = self.receiver_class(fn, recv)
            if isinstance(rc, tuple):
                rc = rc[1]
                m = rc.lookup(mname)
                return ([m] if m else []), "class"
            if rc is not None:
                out = []
                m = rc.lookup(mname)
                if m is not None:
                    out.append(m)
                for s in rc.all_subclasses():
                    if mname in s.methods and s.methods[mname] not in out:
                        out.append(s.methods[mname])
                how = "self" if isinstance(recv, ast.Name) and recv.id == "self" else "typed"
                if out:
                    return out, how
                if how == "self":
                    return [], "unresolved-self"
                return [], "unresolved-typed"
            cands = repo.method_index.get(mname, [])
            if not cands:
                return [], "external"
            if mname in GENERIC_NAMES:
                return [], "generic"
            roots = self._hierarchy_roots(cands)
            if len(roots) == 1:
                return list(cands), "unique"
            return list(cands), "byname"
        return [], "external"

    def _shadowed(self, fn, name):
        """is a module-level name shadowed by a local/param in fn (or enclosing fns)?"""
        p = fn
        while p is not None:
            if name in p.all_param_names():
                return True
            a = p.node.args
            if (a.vararg and a.vararg.arg == name) or (a.kwarg and a.kwarg.arg == name):
                return True
            for n in walk_local(p.node):
                if isinstance(n, ast.Name) and n.id == name and isinstance(n.ctx, ast.Store):
                    return True
            p = p.parent
        return False
