"""Must-pass-through on the statement CFG: every path from ENTRY to a sink node passes an event node."""
import ast

from .cfg import CFG, forward, witness_path


def scan_of(node):
    """the part of a CFG node's AST that is evaluated at that node"""
    a = node.ast
    if a is None or node.kind in ("with_exit", "handler"):
        return None
    if node.kind == "test":
        return a.test
    if node.kind == "for":
        return ast.Tuple(elts=[a.iter, a.target], ctx=ast.Load())
    if node.kind == "with_enter":
        return ast.Tuple(elts=[i.context_expr for i in a.items], ctx=ast.Load())
    if isinstance(a, (ast.FunctionDef, ast.AsyncFunctionDef, ast.ClassDef)):
        return None
    return a


def must_pass(fnode, is_event, is_sink, follow_exceptions=False):
    """returns (cfg, [(sink node, witness path)]) for sinks reachable on a path without an event"""
    cfg = CFG(fnode)

    def transfer(node, state, kind):
        if kind in ("exc", "gen") and not follow_exceptions:
            return []
        sc = scan_of(node)
        if sc is not None and is_event(node, sc):
            return ["done"]
        return [state]

    at, wit = forward(cfg, "pending", transfer)
    bad = []
    n_sinks = 0
    for node in cfg.nodes:
        sc = scan_of(node)
        if sc is None or not is_sink(node, sc):
            continue
        if not at[node.id]:
            continue
        n_sinks += 1
        if "pending" in at[node.id] and not is_event(node, sc):
            bad.append((node, witness_path(cfg, wit, node.id, "pending")))
    return cfg, n_sinks, bad
